// decworker is the child process in which properties C08/C09 run every decode: a panic is
// recovered and reported, CPU time of the decoding thread and heap growth are measured, and a
// fatal abort (out of memory under RLIMIT_AS, stack overflow) or a hang only kills this
// process, so the parent can attribute it to the request in flight.
package main

import (
	"math"
	"bufio"
	"encoding/binary"
	"encoding/json"
	"fmt"
	"os"
	"runtime"
	"runtime/debug"
	"runtime/metrics"
	"strconv"
	"strings"
	"sync/atomic"
	"syscall"
	"time"

	"verif/harness/core"
	"verif/harness/dec"
	"verif/harness/ref/preparse"
)

// threadCPU is the user-mode CPU time of the calling OS thread. Kernel time is left out on
// purpose: in this sandbox the first touch of a fresh page costs up to 250 us of system time
// when the machine is loaded (a 340 MiB append loop took 15 s instead of 30 ms), which says
// nothing about the decoder (DESIGN.md, Corrections).
func threadCPU() time.Duration {
	var ru syscall.Rusage
	// RUSAGE_THREAD = 1 on Linux
	if err := syscall.Getrusage(1, &ru); err != nil {
		return 0
	}
	return time.Duration(ru.Utime.Nano())
}

// taskUser reads the user-mode CPU time of another thread of this process (clock ticks of
// 10 ms) from /proc; used by the hang reporter, which runs on a different thread.
func taskUser(tid int) time.Duration {
	b, err := os.ReadFile(fmt.Sprintf("/proc/self/task/%d/stat", tid))
	if err != nil {
		return -1
	}
	str := string(b)
	f := strings.Fields(str[strings.LastIndex(str, ")")+1:])
	if len(f) < 12 {
		return -1
	}
	ut, _ := strconv.ParseInt(f[11], 10, 64)
	return time.Duration(ut) * 10 * time.Millisecond
}

// HangSeconds is the wall time after which the worker reports a decode as not returned,
// together with the user CPU time the decode thread has spent on it, and exits.
const HangSeconds = 75

// hangLimit is HangSeconds unless VERIF_WORKER_HANG_S overrides it: C08 only asks whether a
// decode panics and gives up on a slow one much earlier than C09, whose subject slowness is.
func hangLimit() time.Duration {
	if v, err := strconv.Atoi(os.Getenv("VERIF_WORKER_HANG_S")); err == nil && v > 0 {
		return time.Duration(v) * time.Second
	}
	return HangSeconds * time.Second
}

func liveHeap() uint64 {
	s := []metrics.Sample{{Name: "/memory/classes/heap/objects:bytes"}}
	metrics.Read(s)
	return s[0].Value.Uint64()
}

// mappedNow is the memory the Go runtime currently holds (what SetMemoryLimit counts): total
// mapped minus what has been returned to the operating system.
func mappedNow() uint64 {
	s := []metrics.Sample{{Name: "/memory/classes/total:bytes"}, {Name: "/memory/classes/heap/released:bytes"}}
	metrics.Read(s)
	return s[0].Value.Uint64() - s[1].Value.Uint64()
}

func totalAlloc() uint64 {
	s := []metrics.Sample{{Name: "/gc/heap/allocs:bytes"}}
	metrics.Read(s)
	return s[0].Value.Uint64()
}

var lastAlloc uint64 = 1 << 30

func main() {
	// The collector runs with its default pacing (GOGC=100), as it would in a user's process:
	// a smaller percentage inflates the CPU time of allocation-heavy decodes several times and
	// turned 2 s decodes into apparent 25 s ones (DESIGN.md, Corrections).
	debug.SetGCPercent(100)
	runtime.LockOSThread()
	tid := syscall.Gettid()
	limit := hangLimit()
	in := bufio.NewReaderSize(os.Stdin, 1<<16)
	out := bufio.NewWriter(os.Stdout)
	for {
		entry, data, info, err := dec.ReadRequest(in)
		if err != nil {
			return
		}
		var resp dec.Response
		// A full collection before the call gives a clean baseline; it is only needed
		// when the previous call left a noticeable amount of garbage behind.
		if lastAlloc > 4<<20 {
			runtime.GC()
		}
		alloc0 := totalAlloc()
		base := liveHeap()
		// Soft memory limit at what the runtime holds now + the C09 budget of this input (512 MiB
		// + 64 x declared samples, + 96 MiB of slack): the collector then runs early enough to keep the heap
		// under the limit whenever the live data fits it, so a sampled heap clearly above the
		// budget means live data above the budget - not garbage waiting for the next cycle.
		// Decodes that stay far below the limit are paced exactly as without it.
		limitSet := false
		if s, found := preparse.Declared(data); !found || s <= 1<<22 {
			if !found {
				s = 0
			}
			if entry == "codec:RLE" && info != nil {
				s = uint64(max(0, info.W)) * uint64(max(0, info.H)) * uint64(max(0, info.SPP))
			}
			if s <= 1<<22 {
				debug.SetMemoryLimit(int64(mappedNow()) + 512<<20 + 64*int64(s) + 96<<20)
				limitSet = true
			}
		}
		var peak atomic.Uint64
		stop := make(chan struct{})
		done := make(chan struct{})
		u0, t0 := taskUser(tid), time.Now()
		go func() {
			defer close(done)
			tk := time.NewTicker(2 * time.Millisecond)
			defer tk.Stop()
			for {
				select {
				case <-stop:
					return
				case <-tk.C:
					if time.Since(t0) > limit {
						// the main goroutine is still inside the decode: report and leave
						hr := dec.Response{Hung: true, WallMs: int64(time.Since(t0) / time.Millisecond), PeakHeap: peak.Load()}
						if u := taskUser(tid); u >= 0 && u0 >= 0 {
							hr.CPUms = int64((u - u0) / time.Millisecond)
						} else {
							hr.CPUms = -1
						}
						b, _ := json.Marshal(&hr)
						var l [4]byte
						binary.LittleEndian.PutUint32(l[:], uint32(len(b)))
						out.Write(l[:])
						out.Write(b)
						out.Flush()
						os.Exit(0)
					}
					if h := liveHeap(); h > base && h-base > peak.Load() {
						peak.Store(h - base)
					}
				}
			}
		}()
		c0 := threadCPU()
		func() {
			defer func() {
				if r := recover(); r != nil {
					buf := make([]byte, 1<<16)
					buf = buf[:runtime.Stack(buf, false)]
					resp.Panic = fmt.Sprint(r)
					resp.Sig = core.PanicSig(r, buf)
				}
			}()
			if e := dec.Run(entry, data, info); e != nil {
				resp.Err = e.Error()
				if len(resp.Err) > 300 {
					resp.Err = resp.Err[:300]
				}
			}
		}()
		if limitSet {
			debug.SetMemoryLimit(math.MaxInt64)
		}
		resp.CPUms = int64((threadCPU() - c0) / time.Millisecond)
		resp.WallMs = int64(time.Since(t0) / time.Millisecond)
		if h := liveHeap(); h > base && h-base > peak.Load() {
			peak.Store(h - base)
		}
		close(stop)
		<-done
		resp.TotalAlloc = totalAlloc() - alloc0
		lastAlloc = resp.TotalAlloc
		resp.PeakHeap = peak.Load()
		b, _ := json.Marshal(&resp)
		var l [4]byte
		binary.LittleEndian.PutUint32(l[:], uint32(len(b)))
		out.Write(l[:])
		out.Write(b)
		if out.Flush() != nil {
			return
		}
	}
}
