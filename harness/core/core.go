// Package core is the shared run-time of every property check: it evaluates one generated
// case, classifies it, records coverage statistics, matches failures against the committed
// known-findings file and writes the (shrunk) failing case where the driver picks it up.
//
// Nothing here reads a clock or a private RNG inside a property; the only inputs are the
// generated case, /repo's code and the files named by the VERIF_* environment variables.
package core

import (
	"encoding/binary"
	"encoding/json"
	"fmt"
	"hash/fnv"
	"os"
	"path/filepath"
	"runtime"
	"sort"
	"strings"
	"sync"
	"testing"
	"time"
)

// Failure describes one violation of a property on one case.
type Failure struct {
	Kind string `json:"kind"`          // mismatch | decode-error | encode-error | panic | header | bound | ...
	Msg  string `json:"msg"`           // human readable detail
	Sig  string `json:"sig,omitempty"` // panic signature: innermost /repo function + panic class
}

func (f *Failure) Error() string { return f.Kind + ": " + f.Msg }

// Failf builds a Failure.
func Failf(kind, format string, a ...any) *Failure {
	return &Failure{Kind: kind, Msg: fmt.Sprintf(format, a...)}
}

// Outcome is what a property's Check function reports for one case.
type Outcome struct {
	NonTrivial bool     // by the property's stated rule
	Labels     []string // class labels computed from the case / the emitted stream
	Fail       *Failure // nil: the property held on this case
}

func (o *Outcome) Label(format string, a ...any) {
	o.Labels = append(o.Labels, fmt.Sprintf(format, a...))
}

func (o *Outcome) Has(label string) bool {
	for _, l := range o.Labels {
		if l == label {
			return true
		}
	}
	return false
}

// ---------------------------------------------------------------------------------------
// known findings

type KnownFinding struct {
	ID       string `json:"id"`
	Property string `json:"property"`
	Status   string `json:"status"` // open | fixed
	Commit   string `json:"commit,omitempty"`
	What     string `json:"what"`
	Match    struct {
		LabelsAll []string `json:"labels_all,omitempty"` // every one must be among the case's labels
		LabelsAny []string `json:"labels_any,omitempty"` // at least one must be (if non-empty)
		Failure   []string `json:"failure,omitempty"`    // failure kinds covered
		Sig       []string `json:"sig,omitempty"`        // panic signatures covered (prefix match)
	} `json:"match"`
	Witness json.RawMessage `json:"witness,omitempty"` // path or list of paths (used by the driver only)
}

var (
	knownOnce sync.Once
	knownAll  []KnownFinding
)

func Root() string {
	if r := os.Getenv("VERIF_ROOT"); r != "" {
		return r
	}
	return "/verif"
}

func loadKnown() {
	b, err := os.ReadFile(filepath.Join(Root(), "known_findings.json"))
	if err != nil {
		return
	}
	var f struct {
		Findings []KnownFinding `json:"findings"`
	}
	if err := json.Unmarshal(b, &f); err != nil {
		panic("known_findings.json: " + err.Error())
	}
	knownAll = f.Findings
}

// MatchKnown returns the id of the open known finding that covers (labels, failure), or "".
func MatchKnown(property string, labels []string, f *Failure) string {
	knownOnce.Do(loadKnown)
	if os.Getenv("VERIF_IGNORE_KNOWN") == "1" {
		return ""
	}
	set := map[string]bool{}
	for _, l := range labels {
		set[l] = true
	}
next:
	for i := range knownAll {
		k := &knownAll[i]
		if k.Property != property || k.Status != "open" {
			continue
		}
		for _, l := range k.Match.LabelsAll {
			if !set[l] {
				continue next
			}
		}
		if len(k.Match.LabelsAny) > 0 {
			ok := false
			for _, l := range k.Match.LabelsAny {
				if set[l] {
					ok = true
				}
			}
			if !ok {
				continue
			}
		}
		if len(k.Match.Failure) > 0 {
			ok := false
			for _, kind := range k.Match.Failure {
				if kind == f.Kind {
					ok = true
				}
			}
			if !ok {
				continue
			}
		}
		if len(k.Match.Sig) > 0 {
			ok := false
			for _, s := range k.Match.Sig {
				if f.Sig != "" && strings.HasPrefix(f.Sig, s) {
					ok = true
				}
			}
			if !ok {
				continue
			}
		}
		return k.ID
	}
	return ""
}

// ---------------------------------------------------------------------------------------
// statistics

type failRecord struct {
	Property string          `json:"property"`
	Case     json.RawMessage `json:"case"`
	Failure  *Failure        `json:"failure"`
	Labels   []string        `json:"labels"`
	Source   string          `json:"source"` // rapid | quota | exhaustive | fuzz | replay
}

type stats struct {
	mu            sync.Mutex
	Property      string
	Evaluations   int64
	NonTrivial    int64
	hashes        map[uint64]struct{}
	Classes       map[string]int64
	ExcludedKnown map[string]int64
	first, last   json.RawMessage
	minHash       [3]uint64
	minCase       [3]json.RawMessage
	Exhaustive    map[string]int64
	Extra         map[string]int64
	frozen        bool
	failures      int
}

var st = &stats{
	hashes: map[uint64]struct{}{}, Classes: map[string]int64{}, ExcludedKnown: map[string]int64{},
	Exhaustive: map[string]int64{}, Extra: map[string]int64{},
	minHash: [3]uint64{^uint64(0), ^uint64(0), ^uint64(0)},
}

func hashBytes(b []byte) uint64 {
	h := fnv.New64a()
	h.Write(b)
	return h.Sum64()
}

// Count adds n to a free-form evidence counter (e.g. "resource_skipped").
func Count(name string, n int64) {
	st.mu.Lock()
	st.Extra[name] += n
	st.mu.Unlock()
}

// ExhaustiveDone records that a finite sub-domain was enumerated completely.
func ExhaustiveDone(name string, size int64) {
	st.mu.Lock()
	st.Exhaustive[name] = size
	st.mu.Unlock()
}

func record(caseJSON []byte, h uint64, o *Outcome, sampleOK bool) {
	st.mu.Lock()
	defer st.mu.Unlock()
	if st.frozen {
		return
	}
	st.Evaluations++
	for _, l := range o.Labels {
		st.Classes[l]++
	}
	if o.NonTrivial {
		st.NonTrivial++
		st.hashes[h] = struct{}{}
		if sampleOK && len(caseJSON) <= 6000 {
			if st.first == nil {
				st.first = append(json.RawMessage(nil), caseJSON...)
			}
			st.last = append(st.last[:0], caseJSON...)
			for i := 0; i < 3; i++ {
				if h < st.minHash[i] {
					copy(st.minHash[i+1:], st.minHash[i:2])
					copy(st.minCase[i+1:], st.minCase[i:2])
					st.minHash[i] = h
					st.minCase[i] = append(json.RawMessage(nil), caseJSON...)
					break
				} else if h == st.minHash[i] {
					break
				}
			}
		}
	}
}

// recordLight is used by enumerations of millions of tiny cases: no JSON, caller gives hash.
func RecordLight(h uint64, nonTrivial bool, label string) {
	st.mu.Lock()
	if !st.frozen {
		st.Evaluations++
		if label != "" {
			st.Classes[label]++
		}
		if nonTrivial {
			st.NonTrivial++
			st.hashes[h] = struct{}{}
		}
	}
	st.mu.Unlock()
}

// AddSample stores a sample case for the evidence file (used with RecordLight).
func AddSample(v any) {
	b, err := json.Marshal(v)
	if err != nil {
		return
	}
	st.mu.Lock()
	if st.first == nil {
		st.first = b
	}
	st.last = b
	st.mu.Unlock()
}

func outDir() string { return os.Getenv("VERIF_OUT") }

func writeFail(rec *failRecord) {
	st.mu.Lock()
	st.frozen = true
	st.failures++
	st.mu.Unlock()
	d := outDir()
	if d == "" {
		return
	}
	b, _ := json.MarshalIndent(rec, "", " ")
	_ = os.WriteFile(filepath.Join(d, "fail.json"), b, 0o644)
}

// Flush writes the statistics of this process; called from TestMain.
func Flush() {
	d := outDir()
	if d == "" {
		return
	}
	st.mu.Lock()
	defer st.mu.Unlock()
	samples := []json.RawMessage{}
	seen := map[string]bool{}
	add := func(r json.RawMessage) {
		if r != nil && !seen[string(r)] {
			seen[string(r)] = true
			samples = append(samples, r)
		}
	}
	add(st.first)
	for _, c := range st.minCase {
		add(c)
	}
	add(st.last)
	out := map[string]any{
		"property": st.Property, "evaluations": st.Evaluations, "nontrivial": st.NonTrivial,
		"distinct_nontrivial": len(st.hashes), "classes": st.Classes,
		"excluded_known": st.ExcludedKnown, "samples": samples,
		"exhaustive_subdomains": st.Exhaustive, "extra": st.Extra, "failures": st.failures,
	}
	b, _ := json.Marshal(out)
	_ = os.WriteFile(filepath.Join(d, "stats.json"), b, 0o644)
	hb := make([]byte, 0, 8*len(st.hashes))
	keys := make([]uint64, 0, len(st.hashes))
	for h := range st.hashes {
		keys = append(keys, h)
	}
	sort.Slice(keys, func(i, j int) bool { return keys[i] < keys[j] })
	for _, h := range keys {
		hb = binary.LittleEndian.AppendUint64(hb, h)
	}
	_ = os.WriteFile(filepath.Join(d, "hashes.bin"), hb, 0o644)
}

// Main is the TestMain body shared by all property packages.
func Main(m *testing.M, property string) {
	st.Property = property
	code := m.Run()
	Flush()
	os.Exit(code)
}

// ---------------------------------------------------------------------------------------
// evaluation

// TB is the subset of testing.TB / *rapid.T that Eval needs.
type TB interface {
	Fatalf(format string, args ...any)
	Logf(format string, args ...any)
}

// PanicSig derives "<innermost /repo function> <class>" from a recovered panic value.
func PanicSig(v any, stack []byte) string {
	class := "explicit-panic"
	msg := fmt.Sprint(v)
	switch {
	case strings.Contains(msg, "index out of range"):
		class = "index-out-of-range"
	case strings.Contains(msg, "slice bounds out of range"):
		class = "slice-bounds"
	case strings.Contains(msg, "nil pointer dereference"):
		class = "nil-deref"
	case strings.Contains(msg, "integer divide by zero"):
		class = "divide-by-zero"
	case strings.Contains(msg, "makeslice") || strings.Contains(msg, "len out of range") || strings.Contains(msg, "cap out of range"):
		class = "makeslice"
	case strings.Contains(msg, "negative shift"):
		class = "negative-shift"
	case strings.Contains(msg, "out of memory"):
		class = "fatal-oom"
	}
	fn := "?"
	lines := strings.Split(string(stack), "\n")
	for i := 0; i+1 < len(lines); i++ {
		l := lines[i]
		if strings.HasPrefix(l, "github.com/cocosip/go-dicom-codecs/") {
			// function line looks like pkg/path.(*T).method(args...)
			if j := strings.LastIndex(l, "("); j > 0 {
				l = l[:j]
			}
			fn = strings.TrimPrefix(l, "github.com/cocosip/go-dicom-codecs/")
			break
		}
	}
	return fn + " " + class
}

// Guard runs f and converts a Go panic into a Failure of kind "panic".
func Guard(f func() *Failure) (fail *Failure) {
	defer func() {
		if r := recover(); r != nil {
			buf := make([]byte, 1<<16)
			buf = buf[:runtime.Stack(buf, false)]
			fail = &Failure{Kind: "panic", Msg: fmt.Sprint(r), Sig: PanicSig(r, buf)}
		}
	}()
	return f()
}

var (
	pendingFile *os.File
	pendingOnce sync.Once
)

// MarkPending records the case that is about to be evaluated in $VERIF_OUT/pending.json and
// returns a function that clears the record. If the process dies inside the check (fatal
// runtime error: out of memory under the address-space limit, stack overflow, concurrent map
// access), the driver finds the record and reports the case as a violation instead of an
// anonymous infrastructure fault.
func MarkPending(property string, caseJSON []byte) func() {
	pendingOnce.Do(func() {
		if d := outDir(); d != "" {
			pendingFile, _ = os.OpenFile(filepath.Join(d, "pending.json"), os.O_CREATE|os.O_RDWR|os.O_TRUNC, 0o644)
		}
	})
	if pendingFile == nil {
		return func() {}
	}
	b := append(append([]byte(`{"property":"`+property+`","case":`), caseJSON...), '}')
	_ = pendingFile.Truncate(0)
	_, _ = pendingFile.WriteAt(b, 0)
	return func() { _ = pendingFile.Truncate(0) }
}

// Eval evaluates one case of a property. check must be a pure function of c.
// source is "rapid", "quota", "exhaustive", "fuzz" or "replay".
func Eval[C any](t TB, property, source string, c C, check func(C) Outcome) {
	cj, err := json.Marshal(c)
	if err != nil {
		t.Fatalf("harness: cannot marshal case: %v", err)
	}
	var o Outcome
	clear := MarkPending(property, cj)
	defer clear()
	// The check runs on its own goroutine: a library call that never returns is reported as a
	// violation of the property under test (every statement presupposes that the call returns)
	// instead of stalling the shard until the job's time limit turns it into an infrastructure
	// fault. The limit (VERIF_HANG_S, default 600 s) is two to five orders of magnitude above
	// what any single case of any check takes.
	type result struct {
		o Outcome
		f *Failure
	}
	done := make(chan result, 1)
	go func() {
		var lo Outcome
		f := Guard(func() *Failure { lo = check(c); return nil })
		done <- result{lo, f}
	}()
	limit := time.Duration(EnvInt("VERIF_HANG_S", 600)) * time.Second
	select {
	case r := <-done:
		o = r.o
		if r.f != nil {
			o.Fail = r.f
			o.Labels = append(o.Labels, "panicked")
		}
	case <-time.After(limit):
		o.Labels = append(o.Labels, "hung")
		o.Fail = &Failure{Kind: "hang", Msg: fmt.Sprintf("the check's calls into the library did not return within %v", limit)}
	}
	h := hashBytes(cj)
	if o.Fail == nil {
		record(cj, h, &o, true)
		return
	}
	if id := MatchKnown(property, o.Labels, o.Fail); id != "" && source != "replay" {
		record(cj, h, &o, false)
		st.mu.Lock()
		if !st.frozen {
			st.ExcludedKnown[id]++
		}
		st.mu.Unlock()
		return
	}
	rec := &failRecord{Property: property, Case: cj, Failure: o.Fail, Labels: o.Labels, Source: source}
	if os.Getenv("VERIF_SURVEY") == "1" && source != "replay" {
		// triage aid (never used by registered commands): log every failure and keep going
		record(cj, h, &o, false)
		if d := outDir(); d != "" {
			b, _ := json.Marshal(rec)
			f, err := os.OpenFile(filepath.Join(d, "survey.jsonl"), os.O_APPEND|os.O_CREATE|os.O_WRONLY, 0o644)
			if err == nil {
				f.Write(append(b, '\n'))
				f.Close()
			}
		}
		return
	}
	writeFail(rec)
	t.Fatalf("VERIF-FAIL property=%s kind=%s sig=%q msg=%s labels=%v", property, o.Fail.Kind, o.Fail.Sig, o.Fail.Msg, o.Labels)
}

// Replay loads the case of a replay file (either a bare case or a failRecord) into c.
func LoadReplay(path string, c any) error {
	b, err := os.ReadFile(path)
	if err != nil {
		return err
	}
	var rec struct {
		Case json.RawMessage `json:"case"`
	}
	if err := json.Unmarshal(b, &rec); err == nil && len(rec.Case) > 0 {
		b = rec.Case
	}
	return json.Unmarshal(b, c)
}

// Tier returns "quick" or "thorough".
func Tier() string {
	if os.Getenv("VERIF_TIER") == "thorough" {
		return "thorough"
	}
	return "quick"
}

func Thorough() bool { return Tier() == "thorough" }

// EnvInt reads an integer environment variable.
func EnvInt(name string, def int) int {
	v := os.Getenv(name)
	if v == "" {
		return def
	}
	n := 0
	fmt.Sscanf(v, "%d", &n)
	return n
}
