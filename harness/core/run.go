package core

import (
	"os"
	"sort"
	"testing"

	"pgregory.net/rapid"
)

// RunRapid is the body of every TestRapid: draw a case, evaluate it.
func RunRapid[C any](t *testing.T, id string, gen func(*rapid.T) C, check func(C) Outcome) {
	rapid.Check(t, func(rt *rapid.T) {
		c := gen(rt)
		Eval(rt, id, "rapid", c, check)
	})
}

// RunQuota draws k cases (3 quick / 20 thorough) from each constrained generator of an
// essential class, deterministically from VERIF_SEED, so that no essential class is starved.
func RunQuota[C any](t *testing.T, id string, gens map[string]*rapid.Generator[C], check func(C) Outcome) {
	k := 3
	if Thorough() {
		k = 20
	}
	seed := EnvInt("VERIF_SEED", 1)
	names := make([]string, 0, len(gens))
	for n := range gens {
		names = append(names, n)
	}
	sort.Strings(names)
	for gi, n := range names {
		for i := 0; i < k; i++ {
			c := gens[n].Example(seed*100003 + gi*1009 + i)
			Eval(t, id, "quota", c, check)
		}
		Count("quota:"+n, int64(k))
	}
}

// RunReplay is the body of every TestReplay.
func RunReplay[C any](t *testing.T, id string, c C, check func(C) Outcome) {
	p := os.Getenv("VERIF_REPLAY")
	if p == "" {
		t.Skip("no VERIF_REPLAY")
	}
	if err := LoadReplay(p, c); err != nil {
		t.Fatalf("harness: %v", err)
	}
	Eval(t, id, "replay", c, check)
}

// RunSharded evaluates n generated cases (nQuick / nThorough by tier) of one generator, split
// over the VERIF_SHARD / VERIF_SHARDS processes; case i is g.Example(seed*1000003+i).
func RunSharded[C any](t *testing.T, id string, nQuick, nThorough int, g *rapid.Generator[C], check func(C) Outcome) {
	shard, shards := EnvInt("VERIF_SHARD", 0), max(1, EnvInt("VERIF_SHARDS", 1))
	seed := EnvInt("VERIF_SEED", 1)
	n := nQuick
	if Thorough() {
		n = nThorough
	}
	for i := 0; i < n; i++ {
		if i%shards != shard {
			continue
		}
		Eval(t, id, "quota", g.Example(seed*1000003+i), check)
	}
}
