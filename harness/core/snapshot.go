package core

import (
	"fmt"
	"reflect"
)

// Snapshot renders the value an interface holds - following one pointer - with all its fields,
// exported or not ("%+v"), so that two snapshots of the same object differ exactly when a field
// was assigned a different value in between (nested pointers compare by address). It is the
// dynamic counterpart of "no Codec method writes a receiver field": a write that changes
// nothing is invisible here and left to the race detector.
func Snapshot(v any) string {
	rv := reflect.ValueOf(v)
	if rv.Kind() == reflect.Pointer && !rv.IsNil() {
		return fmt.Sprintf("%T%+v", v, rv.Elem())
	}
	return fmt.Sprintf("%T%+v", v, v)
}
