// Package dec is the registry of decoding entry points exercised by properties C08 and C09,
// and the wire format between the test processes and the decode worker children.
package dec

import (
	"encoding/binary"
	"fmt"
	"io"

	"github.com/cocosip/go-dicom-codecs/codec"
	"github.com/cocosip/go-dicom-codecs/jpeg/baseline"
	"github.com/cocosip/go-dicom-codecs/jpeg/extended"
	jl "github.com/cocosip/go-dicom-codecs/jpeg/lossless"
	"github.com/cocosip/go-dicom-codecs/jpeg/lossless14sv1"
	"github.com/cocosip/go-dicom-codecs/jpeg2000"
	"github.com/cocosip/go-dicom-codecs/jpeg2000/codestream"
	"github.com/cocosip/go-dicom-codecs/jpeg2000/htj2k"
	_ "github.com/cocosip/go-dicom-codecs/jpeg2000/lossless"
	_ "github.com/cocosip/go-dicom-codecs/jpeg2000/lossy"
	"github.com/cocosip/go-dicom-codecs/jpeg2000/t2"
	jlsl "github.com/cocosip/go-dicom-codecs/jpegls/lossless"
	jlsn "github.com/cocosip/go-dicom-codecs/jpegls/nearlossless"
	_ "github.com/cocosip/go-dicom-codecs/rle"
	"github.com/cocosip/go-dicom/pkg/dicom/transfer"
	dcodec "github.com/cocosip/go-dicom/pkg/imaging/codec"
	"github.com/cocosip/go-dicom/pkg/imaging/imagetypes"
)

// Info is the frame description handed to codec-level entry points.
type Info struct {
	W, H, BA, BS, SPP, Planar, PixRep int
}

// Entries lists every entry point name. Names starting with "codec:" take an Info.
var Entries = []string{
	"baseline", "extended", "lossless", "sv1", "jpegls", "jpegls-near", "j2k", "j2k-ht", "j2k-parser",
	"codec:RLE", "codec:50", "codec:51", "codec:57", "codec:70", "codec:80", "codec:81", "codec:90", "codec:91", "codec:92", "codec:93", "codec:201", "codec:202", "codec:203",
}

var codecTS = map[string]*transfer.Syntax{
	"RLE": transfer.RLELossless, "50": transfer.JPEGBaseline8Bit, "51": transfer.JPEGProcess2_4, "57": transfer.JPEGLossless, "70": transfer.JPEGLosslessSV1,
	"80": transfer.JPEGLSLossless, "81": transfer.JPEGLSNearLossless, "90": transfer.JPEG2000Lossless, "91": transfer.JPEG2000Lossy,
	"92": transfer.JPEG2000Part2MultiComponentLosslessOnly, "93": transfer.JPEG2000Part2MultiComponent, "201": transfer.HTJ2KLossless, "202": transfer.HTJ2KLosslessRPCL, "203": transfer.HTJ2K,
}

func touchJ2K(d *jpeg2000.Decoder) {
	_ = d.GetPixelData()
	_ = d.GetImageData()
	_, _ = d.GetComponentData(0)
	_, _ = d.GetComponentData(d.Components())
	_, _, _, _, _ = d.Width(), d.Height(), d.Components(), d.BitDepth(), d.IsSigned()
}

// Run calls one entry point. Panics propagate to the caller. The returned error is the
// library's own (a clean rejection).
func Run(entry string, data []byte, info *Info) error {
	switch entry {
	case "baseline":
		_, _, _, _, err := baseline.Decode(data)
		return err
	case "extended":
		_, _, _, _, _, err := extended.Decode(data)
		return err
	case "lossless":
		_, _, _, _, _, err := jl.Decode(data)
		return err
	case "sv1":
		_, _, _, _, _, err := lossless14sv1.Decode(data)
		return err
	case "jpegls":
		_, _, _, _, _, err := jlsl.Decode(data)
		return err
	case "jpegls-near":
		_, _, _, _, _, _, err := jlsn.Decode(data)
		return err
	case "j2k":
		d := jpeg2000.NewDecoder()
		err := d.Decode(data)
		if err == nil {
			touchJ2K(d)
		}
		return err
	case "j2k-ht":
		d := jpeg2000.NewDecoder()
		d.SetBlockDecoderFactory(func(w, h int, _ int) t2.BlockDecoder { return htj2k.NewHTDecoder(w, h) })
		err := d.Decode(data)
		if err == nil {
			touchJ2K(d)
		}
		return err
	case "j2k-parser":
		_, err := codestream.NewParser(data).Parse()
		return err
	}
	if len(entry) > 6 && entry[:6] == "codec:" {
		ts, ok := codecTS[entry[6:]]
		if !ok {
			return fmt.Errorf("harness: unknown codec %s", entry)
		}
		cd, ok := dcodec.GetGlobalRegistry().GetCodec(ts)
		if !ok {
			return fmt.Errorf("harness: codec %s not registered", entry)
		}
		var fi *imagetypes.FrameInfo
		if info != nil {
			fi = &imagetypes.FrameInfo{Width: uint16(info.W), Height: uint16(info.H), BitsAllocated: uint16(info.BA), BitsStored: uint16(info.BS), HighBit: uint16(info.BS - 1),
				SamplesPerPixel: uint16(info.SPP), PlanarConfiguration: uint16(info.Planar), PixelRepresentation: uint16(info.PixRep)}
		}
		src := codec.NewTestPixelData(fi)
		_ = src.AddFrame(data)
		dst := codec.NewTestPixelData(fi)
		return cd.Decode(src, dst, nil)
	}
	return fmt.Errorf("harness: unknown entry %s", entry)
}

// ---------------------------------------------------------------------------------------
// wire format: request  = u32 len(entry) entry u32 hasInfo [7 x i32] u32 len(data) data
//              response = u32 len(json) json

type Response struct {
	Panic      string `json:"panic,omitempty"` // panic value
	Sig        string `json:"sig,omitempty"`   // innermost /repo function + class
	Err        string `json:"err,omitempty"`   // library error (clean rejection)
	CPUms      int64  `json:"cpu_ms"`          // user-mode CPU time of the decoding thread
	Hung       bool   `json:"hung,omitempty"`  // the decode had not returned after the worker's hang limit; the worker exited
	WallMs     int64  `json:"wall_ms"`
	TotalAlloc uint64 `json:"total_alloc"` // bytes allocated during the call (cumulative)
	PeakHeap   uint64 `json:"peak_heap"`   // sampled peak of live heap growth over the pre-call baseline
}

func WriteRequest(w io.Writer, entry string, data []byte, info *Info) error {
	buf := make([]byte, 0, 64+len(data))
	buf = binary.LittleEndian.AppendUint32(buf, uint32(len(entry)))
	buf = append(buf, entry...)
	if info != nil {
		buf = binary.LittleEndian.AppendUint32(buf, 1)
		for _, v := range []int{info.W, info.H, info.BA, info.BS, info.SPP, info.Planar, info.PixRep} {
			buf = binary.LittleEndian.AppendUint32(buf, uint32(int32(v)))
		}
	} else {
		buf = binary.LittleEndian.AppendUint32(buf, 0)
	}
	buf = binary.LittleEndian.AppendUint32(buf, uint32(len(data)))
	buf = append(buf, data...)
	_, err := w.Write(buf)
	return err
}

func ReadRequest(r io.Reader) (entry string, data []byte, info *Info, err error) {
	var u [4]byte
	rd := func() (uint32, error) {
		if _, e := io.ReadFull(r, u[:]); e != nil {
			return 0, e
		}
		return binary.LittleEndian.Uint32(u[:]), nil
	}
	n, err := rd()
	if err != nil {
		return
	}
	eb := make([]byte, n)
	if _, err = io.ReadFull(r, eb); err != nil {
		return
	}
	entry = string(eb)
	has, err := rd()
	if err != nil {
		return
	}
	if has == 1 {
		var v [7]int
		for i := range v {
			x, e := rd()
			if e != nil {
				err = e
				return
			}
			v[i] = int(int32(x))
		}
		info = &Info{v[0], v[1], v[2], v[3], v[4], v[5], v[6]}
	}
	n, err = rd()
	if err != nil {
		return
	}
	data = make([]byte, n)
	_, err = io.ReadFull(r, data)
	return
}
