// Package gen holds the rapid generators shared by the property checks.
package gen

import (
	"fmt"

	"pgregory.net/rapid"
)

// Image is a generated sample image. Samples are stored pixel-interleaved:
// index (y*W+x)*C+c. Values are in [0,2^P) for unsigned and in [-2^(P-1),2^(P-1)) for signed.
// Small images carry their samples literally (Pix, drawn sample by sample through rapid so
// that they shrink); large ones carry a recipe (Class, Seed, Par) expanded by a pure function.
type Image struct {
	W, H, C, P int
	Signed     bool   `json:",omitempty"`
	Class      string // content class
	Seed       uint64 `json:",omitempty"`
	Par        int    `json:",omitempty"` // class parameter (ramp step, NEAR, ...)
	Pix        []int  `json:",omitempty"`
}

func (im *Image) N() int { return im.W * im.H * im.C }

func (im *Image) MaxVal() int {
	if im.Signed {
		return 1<<uint(im.P-1) - 1
	}
	return 1<<uint(im.P) - 1
}

func (im *Image) MinVal() int {
	if im.Signed {
		return -(1 << uint(im.P-1))
	}
	return 0
}

func (im *Image) String() string {
	return fmt.Sprintf("%dx%dx%d P=%d signed=%v class=%s", im.W, im.H, im.C, im.P, im.Signed, im.Class)
}

type sm64 struct{ s uint64 }

func (r *sm64) next() uint64 {
	r.s += 0x9E3779B97F4A7C15
	z := r.s
	z = (z ^ (z >> 30)) * 0xBF58476D1CE4E5B9
	z = (z ^ (z >> 27)) * 0x94D049BB133111EB
	return z ^ (z >> 31)
}
func (r *sm64) intn(n int) int {
	if n <= 0 {
		return 0
	}
	return int(r.next() % uint64(n))
}

// Classes of image content (DESIGN.md 3.2).
var Classes = []string{"noise", "twolevel", "extremes", "runs", "ramp", "gradient", "checker", "constant", "sparse", "altext"}

// Samples returns the image's samples (expanding the recipe when Pix is absent).
func (im *Image) Samples() []int {
	if im.Pix != nil {
		return im.Pix
	}
	n := im.N()
	out := make([]int, n)
	r := &sm64{s: im.Seed}
	lo, hi := im.MinVal(), im.MaxVal()
	rng := hi - lo + 1
	clampv := func(v int) int {
		if v < lo {
			return lo
		}
		if v > hi {
			return hi
		}
		return v
	}
	switch im.Class {
	case "noise":
		for i := range out {
			out[i] = lo + r.intn(rng)
		}
	case "twolevel":
		for i := range out {
			if r.next()&1 == 0 {
				out[i] = lo
			} else {
				out[i] = hi
			}
		}
	case "altext": // alternating extremes: neighbours differ by +-(2^P-1)
		for y := 0; y < im.H; y++ {
			for x := 0; x < im.W; x++ {
				for c := 0; c < im.C; c++ {
					v := lo
					if (x+y+c+int(im.Seed&1))&1 == 1 {
						v = hi
					}
					out[(y*im.W+x)*im.C+c] = v
				}
			}
		}
	case "extremes":
		mid := lo + rng/2
		for i := range out {
			switch r.intn(6) {
			case 0:
				out[i] = lo
			case 1:
				out[i] = hi
			case 2:
				out[i] = clampv(mid - 1)
			case 3:
				out[i] = clampv(mid)
			case 4:
				out[i] = clampv(mid + 1)
			default:
				out[i] = lo + r.intn(rng)
			}
		}
	case "runs": // piecewise constant, geometric run lengths, rare interruptions
		mean := 4 + im.Par
		for c := 0; c < im.C; c++ {
			cur := lo + r.intn(rng)
			left := 0
			for y := 0; y < im.H; y++ {
				for x := 0; x < im.W; x++ {
					if left == 0 {
						cur = lo + r.intn(rng)
						left = 1 + r.intn(2*mean)
						if r.intn(4) == 0 { // run ending exactly at the line end
							left = im.W - x
						}
					}
					v := cur
					if r.intn(40) == 0 {
						v = clampv(cur + r.intn(7) - 3)
					}
					out[(y*im.W+x)*im.C+c] = v
					left--
				}
			}
		}
	case "ramp":
		step := im.Par
		if step == 0 {
			step = 1
		}
		for y := 0; y < im.H; y++ {
			for x := 0; x < im.W; x++ {
				for c := 0; c < im.C; c++ {
					v := (x*step + y + c*3) % rng
					out[(y*im.W+x)*im.C+c] = lo + v
				}
			}
		}
	case "gradient":
		for y := 0; y < im.H; y++ {
			for x := 0; x < im.W; x++ {
				for c := 0; c < im.C; c++ {
					d := im.W + im.H
					v := ((x + y + c) * (rng - 1)) / d
					out[(y*im.W+x)*im.C+c] = lo + v
				}
			}
		}
	case "lpgain":
		// The two extremes on the separable period-4 sign pattern (+,+,-,+): the input that
		// drives the 5/3 (and 9/7) low-pass filter to its largest output, about 1.5 x the range
		// per dimension; with several components neighbouring components are inverted, which
		// also maximises the colour-difference channels. Phase from Seed.
		px, py := int(im.Seed%4), int((im.Seed>>2)%4)
		sign := func(i int) bool { return i&3 != 2 }
		for y := 0; y < im.H; y++ {
			for x := 0; x < im.W; x++ {
				pos := sign(x+px) == sign(y+py)
				for c := 0; c < im.C; c++ {
					v := lo
					if pos != (c&1 == 1) {
						v = hi
					}
					out[(y*im.W+x)*im.C+c] = v
				}
			}
		}
	case "checker":
		a, b := lo, hi
		if im.Par > 0 {
			a, b = clampv(lo+im.Par), clampv(hi-im.Par)
		}
		for y := 0; y < im.H; y++ {
			for x := 0; x < im.W; x++ {
				for c := 0; c < im.C; c++ {
					v := a
					if (x+y)&1 == 1 {
						v = b
					}
					out[(y*im.W+x)*im.C+c] = v
				}
			}
		}
	case "constant":
		v := lo + r.intn(rng)
		for i := range out {
			out[i] = v
		}
	case "sparse":
		v := lo + r.intn(rng)
		for i := range out {
			out[i] = v
		}
		k := 1 + r.intn(4)
		for j := 0; j < k && n > 0; j++ {
			out[r.intn(n)] = lo + r.intn(rng)
		}
	case "cat16": // values whose neighbour differences hit +-32768 / +-(2^P-1) (Huffman category 16 at P=16)
		half := 1 << uint(im.P-1)
		set := []int{lo, hi, lo + half, lo + half - 1, lo + 1, clampv(lo + half + 1)}
		for i := range out {
			out[i] = set[r.intn(len(set))]
		}
	case "nearruns": // flat stretches disturbed by exactly Par, Par+1 or Par-1 (run/regular boundary of JPEG-LS)
		cur := lo + r.intn(rng)
		for y := 0; y < im.H; y++ {
			for x := 0; x < im.W; x++ {
				if r.intn(12) == 0 {
					cur = lo + r.intn(rng)
				}
				for c := 0; c < im.C; c++ {
					v := cur
					switch r.intn(8) {
					case 0:
						v = cur + im.Par
					case 1:
						v = cur - im.Par
					case 2:
						v = cur + im.Par + 1
					case 3:
						v = cur - im.Par - 1
					}
					out[(y*im.W+x)*im.C+c] = clampv(v)
				}
			}
		}
	case "nearedge": // samples within Par of the range ends
		for i := range out {
			d := r.intn(im.Par + 2)
			if r.next()&1 == 0 {
				out[i] = clampv(lo + d)
			} else {
				out[i] = clampv(hi - d)
			}
		}
	default:
		panic("gen: unknown class " + im.Class)
	}
	return out
}

// Bytes serialises the samples in the container convention of the properties: P <= 8 one
// byte, P > 8 two bytes little endian, unused high bits zero, signed = P-bit two's complement.
func (im *Image) Bytes() []byte { return Pack(im.Samples(), im.P) }

// Pack packs samples into the 8/16-bit container selected by precision p.
func Pack(s []int, p int) []byte {
	mask := 1<<uint(p) - 1
	if p <= 8 {
		b := make([]byte, len(s))
		for i, v := range s {
			b[i] = byte(v & mask)
		}
		return b
	}
	b := make([]byte, 2*len(s))
	for i, v := range s {
		u := v & mask
		b[2*i], b[2*i+1] = byte(u), byte(u>>8)
	}
	return b
}

// PackBytes packs into a container with an explicit number of bytes per sample.
func PackBytes(s []int, p, bytesPer int) []byte {
	mask := 1<<uint(p) - 1
	b := make([]byte, bytesPer*len(s))
	for i, v := range s {
		u := v & mask
		for k := 0; k < bytesPer; k++ {
			b[bytesPer*i+k] = byte(u >> uint(8*k))
		}
	}
	return b
}

// Unpack is the inverse of Pack for unsigned samples.
func Unpack(b []byte, p int) []int {
	if p <= 8 {
		s := make([]int, len(b))
		for i, v := range b {
			s[i] = int(v)
		}
		return s
	}
	s := make([]int, len(b)/2)
	for i := range s {
		s[i] = int(b[2*i]) | int(b[2*i+1])<<8
	}
	return s
}

// Distinct reports the number of distinct sample values, capped at 3.
func Distinct(s []int) int {
	seen := map[int]bool{}
	for _, v := range s {
		seen[v] = true
		if len(seen) >= 3 {
			break
		}
	}
	return len(seen)
}

// ---------------------------------------------------------------------------------------

// Dim draws one image dimension from the geometry classes of DESIGN.md 3.2, at most max.
func Dim(max int) *rapid.Generator[int] {
	return rapid.Custom(func(t *rapid.T) int {
		var v int
		switch rapid.IntRange(0, 5).Draw(t, "dimclass") {
		case 0:
			v = rapid.IntRange(1, 3).Draw(t, "tiny")
		case 1:
			b := rapid.SampledFrom([]int{4, 8, 16, 32, 64}).Draw(t, "blk")
			k := rapid.IntRange(1, 4).Draw(t, "k")
			v = k*b + rapid.IntRange(-1, 1).Draw(t, "off")
		default:
			v = rapid.IntRange(1, max).Draw(t, "dim")
		}
		if v < 1 {
			v = 1
		}
		if v > max {
			v = max
		}
		return v
	})
}

// Geometry draws (w,h) with w*h <= maxArea, including 1xN and Nx1 strips.
func Geometry(maxDim, maxArea int) *rapid.Generator[[2]int] {
	return rapid.Custom(func(t *rapid.T) [2]int {
		w := Dim(maxDim).Draw(t, "w")
		h := Dim(maxDim).Draw(t, "h")
		switch rapid.IntRange(0, 9).Draw(t, "strip") {
		case 0:
			w = 1
		case 1:
			h = 1
		}
		for w*h > maxArea {
			if w > h {
				w = (w + 1) / 2
			} else {
				h = (h + 1) / 2
			}
		}
		return [2]int{w, h}
	})
}

// ImageOpts configures ImageGen.
type ImageOpts struct {
	MaxDim, MaxArea int
	Comps           []int
	PMin, PMax      int
	Signed          bool     // allow signed images
	Classes         []string // nil: all
	LiteralMax      int      // images with at most this many samples are drawn literally
	Par             *rapid.Generator[int]
}

// ImageGen draws an Image.
func ImageGen(o ImageOpts) *rapid.Generator[*Image] {
	return rapid.Custom(func(t *rapid.T) *Image {
		g := Geometry(o.MaxDim, o.MaxArea).Draw(t, "geom")
		im := &Image{W: g[0], H: g[1]}
		im.C = rapid.SampledFrom(o.Comps).Draw(t, "comps")
		im.P = rapid.IntRange(o.PMin, o.PMax).Draw(t, "P")
		if o.Signed {
			im.Signed = rapid.Bool().Draw(t, "signed")
		}
		FillContent(t, im, o)
		return im
	})
}

// FillContent chooses a content class and either literal samples or a recipe.
func FillContent(t *rapid.T, im *Image, o ImageOpts) {
	classes := o.Classes
	if classes == nil {
		classes = Classes
	}
	im.Class = rapid.SampledFrom(classes).Draw(t, "class")
	if o.Par != nil {
		im.Par = o.Par.Draw(t, "par")
	}
	litMax := o.LiteralMax
	if litMax == 0 {
		litMax = 64
	}
	if im.N() <= litMax && rapid.IntRange(0, 2).Draw(t, "literal") > 0 {
		// literal, shrinkable samples; the class only biases the per-sample generator
		lo, hi := im.MinVal(), im.MaxVal()
		mid := lo + (hi-lo+1)/2
		var sg *rapid.Generator[int]
		switch im.Class {
		case "twolevel", "altext", "checker":
			sg = rapid.SampledFrom([]int{lo, hi})
		case "constant", "sparse", "runs":
			base := rapid.IntRange(lo, hi).Draw(t, "base")
			sg = rapid.OneOf(rapid.Just(base), rapid.Just(base), rapid.Just(base), rapid.IntRange(lo, hi))
		case "cat16":
			half := 1 << uint(im.P-1)
			sg = rapid.SampledFrom([]int{lo, hi, lo + half, lo + half - 1, lo + 1, min(hi, lo+half+1)})
		case "extremes":
			sg = rapid.OneOf(rapid.SampledFrom([]int{lo, hi, mid, max(lo, mid-1), min(hi, mid+1)}), rapid.IntRange(lo, hi))
		default:
			sg = rapid.IntRange(lo, hi)
		}
		im.Pix = rapid.SliceOfN(sg, im.N(), im.N()).Draw(t, "pix")
		im.Class = "lit-" + im.Class
		return
	}
	im.Seed = rapid.Uint64().Draw(t, "seed")
}

// BigGeometry draws sizes around the places where a dimension or the pixel count needs one
// more byte or bit than before: one side from 255..257, 511..513, 1023..1025, 4095..4097 with
// a short other side, or both sides between 250 and 300 (more than 2^16 samples).
func BigGeometry() *rapid.Generator[[2]int] {
	return rapid.Custom(func(t *rapid.T) [2]int {
		long := rapid.SampledFrom([]int{255, 256, 257, 300, 511, 512, 513, 1023, 1024, 1025, 4095, 4096, 4097}).Draw(t, "long")
		short := rapid.IntRange(1, 9).Draw(t, "short")
		switch rapid.IntRange(0, 4).Draw(t, "shape") {
		case 0:
			return [2]int{long, short}
		case 1:
			return [2]int{short, long}
		case 2:
			if long > 600 {
				long = 256 + long%45
			}
			return [2]int{long, 250 + rapid.IntRange(0, 50).Draw(t, "other")}
		case 3:
			return [2]int{min(long, 1025), rapid.IntRange(10, 40).Draw(t, "mid")}
		}
		return [2]int{rapid.IntRange(10, 40).Draw(t, "mid"), min(long, 1025)}
	})
}

// Resize gives the image a new geometry; literal sample lists are dropped in favour of the
// recipe of the same class.
func (im *Image) Resize(w, h int) {
	im.W, im.H = w, h
	im.Pix = nil
	if len(im.Class) > 4 && im.Class[:4] == "lit-" {
		im.Class = im.Class[4:]
	}
	if im.Seed == 0 {
		im.Seed = uint64(w*65537 + h)
	}
}
