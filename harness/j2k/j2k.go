// Package j2k holds what the JPEG 2000 property checks (C04, C05, C12, C16, C19) share.
package j2k

import (
	"fmt"

	"github.com/cocosip/go-dicom-codecs/jpeg2000"
	"pgregory.net/rapid"

	"verif/harness/core"
	"verif/harness/gen"
)

// Config is a reversible / irreversible encoder configuration.
type Config struct {
	Levels     int
	CBW, CBH   int
	PW, PH     int
	Prog       int
	Layers     int
	MCT        bool
	TileW      int `json:",omitempty"`
	TileH      int `json:",omitempty"`
	Lossy      bool `json:",omitempty"`
	Quality    int  `json:",omitempty"`
	AppendLossless bool `json:",omitempty"`
	Rates      []float64 `json:",omitempty"`
	TargetRatio float64 `json:",omitempty"`
	PCRD       bool `json:",omitempty"`
	HT         bool `json:",omitempty"` // EncodeParams.HTJ2KMode (Part 15 code-blocks, CAP/TLM, tile-parts per resolution)
}

// Params builds the library's parameter object for an image and a configuration.
func Params(im *gen.Image, c *Config) *jpeg2000.EncodeParams {
	p := jpeg2000.DefaultEncodeParams(im.W, im.H, im.C, im.P, im.Signed)
	p.NumLevels = c.Levels
	p.CodeBlockWidth, p.CodeBlockHeight = c.CBW, c.CBH
	p.PrecinctWidth, p.PrecinctHeight = c.PW, c.PH
	p.ProgressionOrder = uint8(c.Prog)
	p.NumLayers = c.Layers
	p.EnableMCT = c.MCT
	p.TileWidth, p.TileHeight = c.TileW, c.TileH
	p.Lossless = !c.Lossy
	if c.Lossy {
		p.Quality = c.Quality
	}
	p.AppendLosslessLayer = c.AppendLossless
	p.LayerRates = c.Rates
	p.TargetRatio = c.TargetRatio
	p.UsePCRDOpt = c.PCRD
	p.HTJ2KMode = c.HT
	return p
}

// CodeBlockGen draws a power-of-two code-block size pair with area <= 4096.
func CodeBlockGen() *rapid.Generator[[2]int] {
	return rapid.Custom(func(t *rapid.T) [2]int {
		w := rapid.SampledFrom([]int{4, 8, 16, 32, 64, 64}).Draw(t, "cbw")
		h := rapid.SampledFrom([]int{4, 8, 16, 32, 64, 64}).Draw(t, "cbh")
		return [2]int{w, h}
	})
}

// ConfigGen draws a reversible single-tile configuration over the full product of C04.
func ConfigGen() *rapid.Generator[*Config] {
	return rapid.Custom(func(t *rapid.T) *Config {
		cb := CodeBlockGen().Draw(t, "cb")
		return &Config{
			Levels: rapid.IntRange(0, 6).Draw(t, "levels"),
			CBW:    cb[0], CBH: cb[1],
			PW:     rapid.SampledFrom([]int{0, 0, 32, 64, 128, 256}).Draw(t, "pw"),
			PH:     rapid.SampledFrom([]int{0, 0, 32, 64, 128, 256}).Draw(t, "ph"),
			Prog:   rapid.IntRange(0, 4).Draw(t, "prog"),
			Layers: rapid.SampledFrom([]int{1, 1, 1, 2, 3, 4, 5, 6}).Draw(t, "layers"),
			MCT:    rapid.Bool().Draw(t, "mct"),
		}
	})
}

// ImageGen draws a JPEG 2000 test image (noise dominant, as the property demands).
func ImageGen(maxDim int, comps []int, pmin, pmax int, signed bool) *rapid.Generator[*gen.Image] {
	return rapid.Custom(func(t *rapid.T) *gen.Image {
		o := gen.ImageOpts{MaxDim: maxDim, MaxArea: maxDim * maxDim, Comps: comps, PMin: pmin, PMax: pmax, Signed: signed,
			Classes: []string{"noise", "noise", "noise", "twolevel", "gradient", "extremes", "sparse", "constant", "lpgain"}, LiteralMax: 36}
		return gen.ImageGen(o).Draw(t, "img")
	})
}

// RoundTrip encodes with the library encoder and decodes with the library decoder.
// It returns the decoded bytes or a failure (kind encode-error / decode-error / geometry).
func RoundTrip(im *gen.Image, c *Config, px []byte) (stream, out []byte, fail *core.Failure) {
	enc := jpeg2000.NewEncoder(Params(im, c))
	stream, err := enc.Encode(px)
	if err != nil {
		return nil, nil, core.Failf("encode-error", "%v", err)
	}
	dec := jpeg2000.NewDecoder()
	if err := dec.Decode(stream); err != nil {
		return stream, nil, core.Failf("decode-error", "%v", err)
	}
	if dec.Width() != im.W || dec.Height() != im.H || dec.Components() != im.C || dec.BitDepth() != im.P || dec.IsSigned() != im.Signed {
		return stream, nil, core.Failf("geometry", "decoder reports %dx%dx%d P=%d signed=%v, source %s",
			dec.Width(), dec.Height(), dec.Components(), dec.BitDepth(), dec.IsSigned(), im.String())
	}
	return stream, dec.GetPixelData(), nil
}

// FirstDiff describes the first differing sample of two packed buffers.
func FirstDiff(got, want []byte, im *gen.Image) string {
	if len(got) != len(want) {
		return fmt.Sprintf("length %d != %d", len(got), len(want))
	}
	bps := 1
	if im.P > 8 {
		bps = 2
	}
	n, first := 0, -1
	for i := 0; i+bps <= len(got); i += bps {
		same := got[i] == want[i] && (bps == 1 || got[i+1] == want[i+1])
		if !same {
			if first < 0 {
				first = i / bps
			}
			n++
		}
	}
	if first < 0 {
		return "equal"
	}
	pix := first / im.C
	return fmt.Sprintf("%d of %d samples differ, first at sample %d (x=%d y=%d c=%d)", n, len(got)/bps, first, pix%im.W, pix/im.W, first%im.C)
}
