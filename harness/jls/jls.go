// Package jls holds what the JPEG-LS property checks (C03, C07, C14) share: image
// generators aimed at run mode / run interruption / range wrap, and container helpers.
package jls

import (
	"pgregory.net/rapid"

	"verif/harness/core"
	"verif/harness/gen"
)

// Classes used for JPEG-LS content.
var Classes = []string{"noise", "twolevel", "runs", "sparse", "gradient", "constant", "extremes", "altext", "ramp", "nearruns", "nearedge"}

// MaxNear returns min(255, MAXVAL/2).
func MaxNear(p int) int {
	m := (1<<uint(p) - 1) / 2
	if m > 255 {
		m = 255
	}
	return m
}

// NearGen draws NEAR for precision p, emphasising 0..3 and the maximum.
func NearGen(p int, allowZero bool) *rapid.Generator[int] {
	return rapid.Custom(func(t *rapid.T) int {
		mx := MaxNear(p)
		lo := 0
		if !allowZero {
			lo = 1
		}
		var n int
		switch rapid.IntRange(0, 4).Draw(t, "nearclass") {
		case 0:
			n = rapid.IntRange(lo, min(3, mx)).Draw(t, "near")
		case 1:
			n = mx - rapid.IntRange(0, min(2, mx-lo)).Draw(t, "nearTop")
		default:
			n = rapid.IntRange(lo, mx).Draw(t, "near")
		}
		return max(lo, min(n, mx))
	})
}

// ImageGen draws a JPEG-LS test image; near (if >= 0) parameterises the NEAR-aware classes.
func ImageGen(near int) *rapid.Generator[*gen.Image] {
	return rapid.Custom(func(t *rapid.T) *gen.Image {
		o := gen.ImageOpts{MaxDim: 64, MaxArea: 64 * 48, Comps: []int{1, 3}, PMin: 2, PMax: 16, Classes: Classes, LiteralMax: 40}
		if core.Thorough() {
			o.MaxDim, o.MaxArea = 512, 512*128
		}
		g := gen.Geometry(o.MaxDim, o.MaxArea).Draw(t, "geom")
		im := &gen.Image{W: g[0], H: g[1]}
		im.C = rapid.SampledFrom(o.Comps).Draw(t, "comps")
		im.P = rapid.IntRange(o.PMin, o.PMax).Draw(t, "P")
		FillContent(t, im, near, o)
		return im
	})
}

// FillContent draws the class and its parameter for an image whose shape is already fixed.
func FillContent(t *rapid.T, im *gen.Image, near int, o gen.ImageOpts) {
	n := near
	if n < 0 {
		n = 0
	}
	o.Par = rapid.SampledFrom([]int{n, n + 1, 2*n + 1, 2 * n, max(0, n-1), 1})
	gen.FillContent(t, im, o)
}

// HasRunOrJump is the non-triviality rule of C03: two equal horizontal neighbours (run
// mode reachable) or a jump of at least half the range (modulo reduction exercised).
func HasRunOrJump(im *gen.Image) bool {
	s := im.Samples()
	half := 1 << uint(im.P-1)
	for y := 0; y < im.H; y++ {
		for x := 1; x < im.W; x++ {
			eq := true
			for c := 0; c < im.C; c++ {
				a, b := s[(y*im.W+x-1)*im.C+c], s[(y*im.W+x)*im.C+c]
				if a != b {
					eq = false
				}
				if a-b >= half || b-a >= half {
					return true
				}
			}
			if eq {
				return true
			}
		}
	}
	for y := 1; y < im.H; y++ {
		for c := 0; c < im.C; c++ {
			a, b := s[((y-1)*im.W)*im.C+c], s[(y*im.W)*im.C+c]
			if a-b >= half || b-a >= half {
				return true
			}
		}
	}
	return false
}
