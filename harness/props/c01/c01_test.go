// C01 RLE Lossless: decode(encode(frame)) is the identity for every frame geometry, and the
// encoded frame is a valid PS3.5 Annex G stream readable by an independent PackBits reader.
package c01

import (
	"bytes"
	"fmt"
	"os"
	"testing"

	"github.com/cocosip/go-dicom-codecs/codec"
	"github.com/cocosip/go-dicom-codecs/rle"
	"github.com/cocosip/go-dicom/pkg/imaging/imagetypes"
	"pgregory.net/rapid"

	"verif/harness/core"
	"verif/harness/ref/rleref"
)

const ID = "C01"

func TestMain(m *testing.M) { core.Main(m, ID) }

// Tok is one token of the run-length grammar: a replicate run of Len copies of Val, or a
// literal stretch of Len bytes in which no two neighbours are equal (derived from Val).
type Tok struct {
	Run bool `json:",omitempty"`
	Len int
	Val byte
}

// Case is one generated RLE frame.
type Case struct {
	Rows, Cols int
	BitsAlloc  int // 8,16,32
	SPP        int // 1,3
	Planar     int // 0,1
	Mode       string
	Tokens     [][]Tok `json:",omitempty"` // per byte plane (mode "tokens"); cycled to fill the plane
	Bytes      []byte  `json:",omitempty"` // literal frame (mode "bytes")
	Alpha      []byte  `json:",omitempty"` // alphabet (mode "alpha"/"noise")
	Seed       uint64  `json:",omitempty"`
}

func (c *Case) pixels() int     { return c.Rows * c.Cols }
func (c *Case) bytesAlloc() int { return c.BitsAlloc / 8 }
func (c *Case) planes() int     { return c.bytesAlloc() * c.SPP }

func splitmix(s *uint64) uint64 {
	*s += 0x9E3779B97F4A7C15
	z := *s
	z = (z ^ (z >> 30)) * 0xBF58476D1CE4E5B9
	z = (z ^ (z >> 27)) * 0x94D049BB133111EB
	return z ^ (z >> 31)
}

// Frame expands the case to the native frame bytes.
func (c *Case) Frame() []byte {
	n := c.pixels() * c.planes()
	switch c.Mode {
	case "bytes":
		f := make([]byte, n)
		copy(f, c.Bytes)
		return f
	case "noise", "alpha":
		f := make([]byte, n)
		s := c.Seed
		for i := range f {
			r := splitmix(&s)
			if len(c.Alpha) > 0 {
				f[i] = c.Alpha[r%uint64(len(c.Alpha))]
			} else {
				f[i] = byte(r)
			}
		}
		return f
	case "tokens":
		px := c.pixels()
		pl := make([][]byte, c.planes())
		for s := range pl {
			var toks []Tok
			if len(c.Tokens) > 0 {
				toks = c.Tokens[s%len(c.Tokens)]
			}
			p := make([]byte, 0, px)
			for len(p) < px {
				if len(toks) == 0 {
					p = append(p, 0)
					continue
				}
				for _, t := range toks {
					l := t.Len
					if l < 1 {
						l = 1
					}
					for k := 0; k < l && len(p) < px; k++ {
						if t.Run {
							p = append(p, t.Val)
						} else {
							// literal: alternate so that neighbours differ (period 3 avoids runs)
							p = append(p, t.Val+byte(k%3)*37+1)
						}
					}
				}
			}
			pl[s] = p
		}
		return rleref.Assemble(pl, px, c.bytesAlloc(), c.SPP, c.Planar)
	}
	panic("unknown mode " + c.Mode)
}

var interestingLens = []int{1, 2, 3, 4, 126, 127, 128, 129, 130, 255, 256, 257, 258, 384, 385}

func genTok(t *rapid.T) Tok {
	var l int
	if rapid.Bool().Draw(t, "edge") {
		l = rapid.SampledFrom(interestingLens).Draw(t, "len")
	} else {
		l = rapid.IntRange(1, 300).Draw(t, "len")
	}
	return Tok{Run: rapid.Bool().Draw(t, "run"), Len: l, Val: rapid.Byte().Draw(t, "val")}
}

func genShape(t *rapid.T, c *Case) {
	c.BitsAlloc = rapid.SampledFrom([]int{8, 16, 32}).Draw(t, "ba")
	c.SPP = rapid.SampledFrom([]int{1, 3}).Draw(t, "spp")
	c.Planar = rapid.IntRange(0, 1).Draw(t, "planar")
}

func maxPixels() int {
	if core.Thorough() {
		return 1 << 20
	}
	return 1 << 14
}

// Gen is the free generator.
func Gen(t *rapid.T) *Case {
	c := &Case{}
	genShape(t, c)
	mode := rapid.SampledFrom([]string{"tokens", "tokens", "tokens", "bytes", "alpha", "noise"}).Draw(t, "mode")
	c.Mode = mode
	maxPx := maxPixels() / c.planes()
	switch mode {
	case "bytes":
		px := rapid.IntRange(1, 48).Draw(t, "px")
		c.Rows, c.Cols = factor(t, px)
		alpha := rapid.SampledFrom([][]byte{{0, 1}, {0, 255, 7}, nil}).Draw(t, "alpha")
		bg := rapid.Byte()
		if alpha != nil {
			bg = rapid.SampledFrom(alpha)
		}
		n := px * c.planes()
		c.Bytes = rapid.SliceOfN(bg, n, n).Draw(t, "bytes")
	case "alpha", "noise":
		c.Cols = rapid.IntRange(1, 700).Draw(t, "cols")
		c.Rows = rapid.IntRange(1, max(1, min(700, maxPx/c.Cols))).Draw(t, "rows")
		if c.Rows*c.Cols > maxPx {
			c.Rows = max(1, maxPx/c.Cols)
		}
		if mode == "alpha" {
			c.Alpha = rapid.SliceOfN(rapid.Byte(), 1, 3).Draw(t, "alpha")
		}
		c.Seed = rapid.Uint64().Draw(t, "seed")
	case "tokens":
		np := rapid.IntRange(1, c.planes()).Draw(t, "ntokplanes")
		total := 0
		for i := 0; i < np; i++ {
			toks := rapid.SliceOfN(rapid.Custom(genTok), 1, 6).Draw(t, "toks")
			c.Tokens = append(c.Tokens, toks)
			s := 0
			for _, k := range toks {
				s += k.Len
			}
			total = max(total, s)
		}
		// pixel count: exactly the token total, one less/more, or a multiple
		px := total + rapid.SampledFrom([]int{0, 0, -1, 1, 2, 7}).Draw(t, "slack")
		if rapid.IntRange(0, 3).Draw(t, "rep") == 0 {
			px *= rapid.IntRange(2, 5).Draw(t, "times")
		}
		px = max(1, min(px, maxPx))
		c.Rows, c.Cols = factor(t, px)
	}
	return c
}

// factor draws Rows x Cols with the product exactly px where possible (else 1 x px).
func factor(t *rapid.T, px int) (int, int) {
	var divs []int
	for d := 1; d*d <= px && d < 65536; d++ {
		if px%d == 0 && px/d < 65536 {
			divs = append(divs, d)
		}
	}
	if len(divs) == 0 {
		return 1, min(px, 65535)
	}
	d := rapid.SampledFrom(divs).Draw(t, "div")
	if rapid.Bool().Draw(t, "swap") {
		return px / d, d
	}
	return d, px / d
}

// longest replicate run and longest run-free stretch in a plane.
func planeShape(p []byte) (maxRun, maxLit int) {
	run, lit := 0, 0
	for i := range p {
		if i > 0 && p[i] == p[i-1] {
			run++
		} else {
			run = 1
		}
		if run >= 3 {
			lit = 0
		} else {
			lit++
		}
		maxRun = max(maxRun, run)
		maxLit = max(maxLit, lit)
	}
	return
}

func frameInfo(c *Case) *imagetypes.FrameInfo {
	return &imagetypes.FrameInfo{
		Width: uint16(c.Cols), Height: uint16(c.Rows),
		BitsAllocated: uint16(c.BitsAlloc), BitsStored: uint16(c.BitsAlloc), HighBit: uint16(c.BitsAlloc - 1),
		SamplesPerPixel: uint16(c.SPP), PlanarConfiguration: uint16(c.Planar),
		PhotometricInterpretation: map[int]string{1: "MONOCHROME2", 3: "RGB"}[c.SPP],
	}
}

// Check evaluates the property on one case.
func Check(c *Case) (o core.Outcome) {
	frame := c.Frame()
	orig := append([]byte(nil), frame...)
	px, ba := c.pixels(), c.bytesAlloc()

	maxRun, maxLit := 0, 0
	adjDiff := false
	for _, p := range rleref.Planes(frame, px, ba, c.SPP, c.Planar) {
		r, l := planeShape(p)
		maxRun, maxLit = max(maxRun, r), max(maxLit, l)
		if l >= 2 {
			adjDiff = true
		}
	}
	o.NonTrivial = (maxRun >= 3 || adjDiff) && px*c.planes() >= 4
	o.Label("planes=%d", c.planes())
	o.Label("planar=%d", c.Planar)
	o.Label("mode=%s", c.Mode)
	if c.pixels() >= 1<<16 {
		o.Label("pixels>=65536")
	}
	if c.Cols*c.bytesAlloc() >= 1<<16 {
		o.Label("row-bytes>=65536")
	}
	if len(frame)%2 == 1 {
		o.Label("odd-frame")
	}
	if maxRun >= 127 && maxRun <= 130 {
		o.Label("run127-130")
	}
	if maxRun > 256 {
		o.Label("run>256")
	}
	if maxLit >= 127 && maxLit <= 130 {
		o.Label("lit127-130")
	}
	if maxLit > 256 {
		o.Label("lit>256")
	}
	if c.Rows == 1 || c.Cols == 1 {
		o.Label("strip")
	}

	info := frameInfo(c)
	cd := rle.NewRLECodec()
	src := codec.NewTestPixelData(info)
	_ = src.AddFrame(frame)
	enc := codec.NewTestPixelData(info)
	if err := cd.Encode(src, enc, nil); err != nil {
		o.Fail = core.Failf("encode-error", "%v", err)
		return
	}
	if !bytes.Equal(frame, orig) {
		o.Fail = core.Failf("input-modified", "Encode changed the caller's frame buffer")
		return
	}
	if enc.FrameCount() != 1 {
		o.Fail = core.Failf("frame-count", "encode produced %d frames", enc.FrameCount())
		return
	}
	stream, _ := enc.GetFrame(0)
	if err := rleref.CheckHeader(stream, c.planes()); err != nil {
		o.Fail = core.Failf("header", "%v", err)
		return
	}
	got, err := rleref.Decode(stream, px, ba, c.SPP, c.Planar)
	if err != nil {
		o.Fail = core.Failf("ref-decode-error", "independent PackBits reader: %v", err)
		return
	}
	if !bytes.Equal(got, orig) {
		o.Fail = core.Failf("ref-mismatch", "independent PackBits reader recovers different pixels (first diff at %d)", firstDiff(got, orig))
		return
	}
	streamCopy := append([]byte(nil), stream...)
	dec := codec.NewTestPixelData(info)
	if err := cd.Decode(enc, dec, nil); err != nil {
		o.Fail = core.Failf("decode-error", "%v", err)
		return
	}
	if !bytes.Equal(stream, streamCopy) {
		o.Fail = core.Failf("input-modified", "Decode changed the encoded frame buffer")
		return
	}
	if dec.FrameCount() != 1 {
		o.Fail = core.Failf("frame-count", "decode produced %d frames", dec.FrameCount())
		return
	}
	out, _ := dec.GetFrame(0)
	want := orig
	if len(want)%2 == 1 {
		want = append(append([]byte(nil), orig...), 0)
	}
	if !bytes.Equal(out, want) {
		o.Fail = core.Failf("mismatch", "decode(encode(x)) != x||pad: len got %d want %d, first diff at %d", len(out), len(want), firstDiff(out, want))
	}
	return
}

func firstDiff(a, b []byte) int {
	for i := 0; i < len(a) && i < len(b); i++ {
		if a[i] != b[i] {
			return i
		}
	}
	return min(len(a), len(b))
}

func TestRapid(t *testing.T) {
	rapid.Check(t, func(t *rapid.T) {
		c := Gen(t)
		core.Eval(t, ID, "rapid", c, Check)
	})
}

// quota generators for the essential labels
func quotaGens() map[string]*rapid.Generator[*Case] {
	edgeTok := func(run bool) *rapid.Generator[*Case] {
		return rapid.Custom(func(t *rapid.T) *Case {
			c := &Case{Mode: "tokens"}
			genShape(t, c)
			l := rapid.IntRange(127, 130).Draw(t, "len")
			pre := Tok{Run: !run, Len: rapid.IntRange(1, 5).Draw(t, "pre"), Val: 9}
			c.Tokens = [][]Tok{{pre, {Run: run, Len: l, Val: rapid.Byte().Draw(t, "v")}, {Run: !run, Len: 3, Val: 200}}}
			c.Rows, c.Cols = 1, pre.Len+l+3+rapid.IntRange(0, 1).Draw(t, "slack")
			return c
		})
	}
	return map[string]*rapid.Generator[*Case]{
		"run127-130": edgeTok(true),
		"lit127-130": edgeTok(false),
		"odd-frame": rapid.Custom(func(t *rapid.T) *Case {
			c := &Case{Mode: "noise", BitsAlloc: 8, SPP: rapid.SampledFrom([]int{1, 3}).Draw(t, "spp"), Planar: rapid.IntRange(0, 1).Draw(t, "pl")}
			c.Rows = 2*rapid.IntRange(0, 20).Draw(t, "r") + 1
			c.Cols = 2*rapid.IntRange(0, 20).Draw(t, "c") + 1
			c.Seed = rapid.Uint64().Draw(t, "seed")
			return c
		}),
		"planes=12": rapid.Custom(func(t *rapid.T) *Case {
			c := Gen(t)
			c.BitsAlloc, c.SPP = 32, 3
			if c.Mode == "bytes" {
				c.Mode, c.Bytes = "noise", nil
			}
			return c
		}),
	}
}

func TestQuota(t *testing.T) {
	k := 3
	if core.Thorough() {
		k = 20
	}
	seed := core.EnvInt("VERIF_SEED", 1)
	for name, g := range quotaGens() {
		for i := 0; i < k; i++ {
			c := g.Example(seed*1000 + i)
			core.Eval(t, ID, "quota", c, Check)
		}
		_ = name
	}
	// frames of 2^16 pixels and more, in every layout: pixel counts and plane offsets that no
	// longer fit 16 bits (Rows and Columns are 16-bit attributes, their product is not)
	dims := [][2]int{{256, 256}, {257, 256}, {300, 219}, {255, 258}, {1024, 65}, {2, 40000}, {33000, 2}, {512, 129}}
	i := 0
	for _, ba := range []int{8, 16} {
		for _, spp := range []int{1, 3} {
			for planar := 0; planar <= 1; planar++ {
				d := dims[(i+seed)%len(dims)]
				c := &Case{Rows: d[0], Cols: d[1], BitsAlloc: ba, SPP: spp, Planar: planar, Mode: []string{"noise", "alpha"}[(i+seed)%2], Seed: uint64(seed*31 + i)}
				if c.Mode == "alpha" {
					c.Alpha = []byte{0, 255, byte(i)}
				}
				core.Eval(t, ID, "quota", c, Check)
				i++
			}
		}
	}
	// very wide and very tall frames in every layout: row and plane strides (Columns x bytes per
	// sample, Rows x Columns) that need more than 16 bits
	for _, d := range [][2]int{{1, 65535}, {2, 40000}, {3, 32768}, {1, 16384}, {40000, 2}} {
		for _, ba := range []int{8, 16, 32} {
			for _, spp := range []int{1, 3} {
				for planar := 0; planar <= 1; planar++ {
					if spp == 1 && planar == 1 {
						continue
					}
					c := &Case{Rows: d[0], Cols: d[1], BitsAlloc: ba, SPP: spp, Planar: planar, Mode: "noise", Seed: uint64(seed*131 + i)}
					core.Eval(t, ID, "quota", c, Check)
					i++
				}
			}
		}
	}
	// the two extreme strips named by the property
	for _, rc := range [][2]int{{65535, 1}, {1, 65535}} {
		for _, ba := range []int{8, 16} {
			c := &Case{Rows: rc[0], Cols: rc[1], BitsAlloc: ba, SPP: 1, Mode: "tokens",
				Tokens: [][]Tok{{{Run: true, Len: 300, Val: 5}, {Len: 200, Val: 1}, {Run: true, Len: 2, Val: 7}, {Len: 1, Val: 3}}}}
			core.Eval(t, ID, "quota", c, Check)
			c2 := &Case{Rows: rc[0], Cols: rc[1], BitsAlloc: ba, SPP: 1, Mode: "noise", Seed: uint64(seed)}
			core.Eval(t, ID, "quota", c2, Check)
		}
	}
}

// TestExhaustive enumerates every byte string of length 1..10 over a 3-symbol alphabet as an
// 8-bit 1 x n frame, and again as the low-order plane of a 16-bit frame.
func TestExhaustive(t *testing.T) {
	alpha := []byte{0x00, 0x7F, 0xFF}
	total := int64(0)
	for n := 1; n <= 10; n++ {
		cnt := 1
		for i := 0; i < n; i++ {
			cnt *= 3
		}
		buf := make([]byte, n)
		for code := 0; code < cnt; code++ {
			x := code
			for i := 0; i < n; i++ {
				buf[i] = alpha[x%3]
				x /= 3
			}
			for _, ba := range []int{8, 16} {
				c := &Case{Rows: 1, Cols: n, BitsAlloc: ba, SPP: 1, Mode: "bytes"}
				if ba == 8 {
					c.Bytes = append([]byte(nil), buf...)
				} else {
					c.Bytes = make([]byte, 2*n)
					for i, v := range buf {
						c.Bytes[2*i] = v // low byte = segment 2
						c.Bytes[2*i+1] = 0x11
					}
				}
				o := Check(c)
				if o.Fail != nil {
					core.Eval(t, ID, "exhaustive", c, Check) // records and fails
				}
				core.RecordLight(uint64(code)<<8|uint64(n)<<4|uint64(ba>>4), o.NonTrivial, "exhaustive")
				total++
			}
		}
	}
	core.ExhaustiveDone("all byte strings of length 1..10 over {00,7F,FF} as 8-bit 1xn frame and as low plane of a 16-bit frame", total)
	core.AddSample(map[string]any{"exhaustive": "1x10 8-bit frame", "bytes": fmt.Sprint([]byte{0, 0x7F, 0xFF, 0xFF, 0xFF, 0, 0, 0x7F, 0x7F, 0x7F})})
}

func TestReplay(t *testing.T) {
	p := os.Getenv("VERIF_REPLAY")
	if p == "" {
		t.Skip("no VERIF_REPLAY")
	}
	c := &Case{}
	if err := core.LoadReplay(p, c); err != nil {
		t.Fatalf("harness: %v", err)
	}
	core.Eval(t, ID, "replay", c, Check)
}
