// C02 JPEG Lossless (Process 14, predictors 1-7, automatic, and SV1): exact reconstruction.
package c02

import (
	"bytes"
	"fmt"
	"testing"

	"github.com/cocosip/go-dicom-codecs/jpeg/lossless"
	"github.com/cocosip/go-dicom-codecs/jpeg/lossless14sv1"
	"github.com/cocosip/go-dicom-codecs/jpeg/standard"
	"pgregory.net/rapid"

	"verif/harness/core"
	"verif/harness/gen"
	"verif/harness/ref/walk"
)

const ID = "C02"

func TestMain(m *testing.M) { core.Main(m, ID) }

// Case: an image and a predictor selection (0 = automatic, 1..7, 8 = Selection-Value-1 codec).
type Case struct {
	Img *gen.Image
	Sel int
}

var classes = []string{"noise", "twolevel", "extremes", "altext", "cat16", "runs", "gradient", "constant", "sparse", "checker"}

func imgOpts() gen.ImageOpts {
	o := gen.ImageOpts{MaxDim: 64, MaxArea: 64 * 64, Comps: []int{1, 3}, PMin: 2, PMax: 16, Classes: classes, LiteralMax: 48}
	if core.Thorough() {
		o.MaxDim, o.MaxArea = 512, 512*512/4
	}
	return o
}

func Gen(t *rapid.T) *Case {
	return &Case{Img: gen.ImageGen(imgOpts()).Draw(t, "img"), Sel: rapid.IntRange(0, 8).Draw(t, "sel")}
}

func encode(c *Case, px []byte) ([]byte, error) {
	im := c.Img
	if c.Sel == 8 {
		return lossless14sv1.Encode(px, im.W, im.H, im.C, im.P)
	}
	return lossless.Encode(px, im.W, im.H, im.C, im.P, c.Sel)
}

func decode(c *Case, s []byte) ([]byte, int, int, int, int, error) {
	if c.Sel == 8 {
		return lossless14sv1.Decode(s)
	}
	return lossless.Decode(s)
}

func Check(c *Case) (o core.Outcome) {
	im := c.Img
	px := im.Bytes()
	orig := append([]byte(nil), px...)
	o.NonTrivial = gen.Distinct(im.Samples()) >= 2 && im.W*im.H >= 2
	o.Label("P=%d", im.P)
	o.Label("sel=%d", c.Sel)
	o.Label("comps=%d", im.C)
	o.Label("class=%s", im.Class)
	if im.P >= 15 && c.Sel >= 4 && c.Sel <= 7 {
		o.Label("P>=15&sel4-7")
	}
	if im.W == 1 || im.H == 1 {
		o.Label("strip")
	}
	stream, err := encode(c, px)
	if err != nil {
		o.Fail = core.Failf("encode-error", "%v", err)
		return
	}
	if !bytes.Equal(px, orig) {
		o.Fail = core.Failf("input-modified", "Encode changed the pixel buffer")
		return
	}
	if j, err := walk.WalkJPEG(stream, false); err == nil {
		for _, t := range j.DHT() {
			for _, v := range t.Vals {
				if v == 16 {
					o.Label("dht-cat16")
				}
			}
			if t.Bits[16] > 0 {
				o.Label("dht-len16")
			}
		}
		if len(j.Scans) > 0 {
			if j.Scans[0].FFCount > 0 {
				o.Label("stuffed")
			}
			o.Label("streamSs=%d", j.Scans[0].Ss)
		}
	}
	scopy := append([]byte(nil), stream...)
	got, w, h, comps, p, err := decode(c, stream)
	if err != nil {
		o.Fail = core.Failf("decode-error", "%v", err)
		return
	}
	if !bytes.Equal(stream, scopy) {
		o.Fail = core.Failf("input-modified", "Decode changed the stream buffer")
		return
	}
	if w != im.W || h != im.H || comps != im.C || p != im.P {
		o.Fail = core.Failf("geometry", "decoder reports %dx%dx%d P=%d, source %dx%dx%d P=%d", w, h, comps, p, im.W, im.H, im.C, im.P)
		return
	}
	if !bytes.Equal(got, orig) {
		i := 0
		for i < len(got) && i < len(orig) && got[i] == orig[i] {
			i++
		}
		o.Fail = core.Failf("mismatch", "decoded bytes differ (len %d vs %d, first diff at byte %d)", len(got), len(orig), i)
	}
	return
}

func TestRapid(t *testing.T) { core.RunRapid(t, ID, Gen, Check) }

func TestReplay(t *testing.T) { core.RunReplay(t, ID, &Case{}, Check) }

func quota() map[string]*rapid.Generator[*Case] {
	hiP := rapid.Custom(func(t *rapid.T) *Case {
		o := imgOpts()
		o.PMin, o.PMax = 15, 16
		o.MaxDim, o.MaxArea = 24, 256
		o.Classes = []string{"twolevel", "altext", "cat16", "extremes", "noise"}
		return &Case{Img: gen.ImageGen(o).Draw(t, "img"), Sel: rapid.IntRange(4, 7).Draw(t, "sel")}
	})
	cat16 := rapid.Custom(func(t *rapid.T) *Case {
		o := imgOpts()
		o.PMin, o.PMax = 16, 16
		o.MaxDim, o.MaxArea = 24, 256
		o.Classes = []string{"cat16"}
		return &Case{Img: gen.ImageGen(o).Draw(t, "img"), Sel: rapid.IntRange(0, 8).Draw(t, "sel")}
	})
	strips := rapid.Custom(func(t *rapid.T) *Case {
		im := &gen.Image{W: 65535, H: 1, C: 1, P: rapid.SampledFrom([]int{8, 12, 16}).Draw(t, "P"), Class: "noise", Seed: rapid.Uint64().Draw(t, "seed")}
		if rapid.Bool().Draw(t, "tall") {
			im.W, im.H = 1, 65535
		}
		return &Case{Img: im, Sel: rapid.IntRange(0, 8).Draw(t, "sel")}
	})
	// Fibonacci-distributed difference categories force Huffman code lengths up to the 16-bit limit.
	fib := rapid.Custom(func(t *rapid.T) *Case {
		var diffs []int
		a, b := 1, 2 // f(k+1) >= 2 + sum_{j<k} f(j): no ties, fully degenerate Huffman tree
		order := rapid.Permutation([]int{0, 1, 2, 3, 4, 5, 6, 7, 8, 9, 10, 11, 12, 13, 14, 15, 16}).Draw(t, "order")
		for _, cat := range order {
			for k := 0; k < a; k++ {
				d := 0
				if cat == 16 {
					d = 32768
				} else if cat > 0 {
					d = 1<<uint(cat-1) + (k*7)%(1<<uint(cat-1))
					if k&1 == 1 {
						d = -d
					}
				}
				diffs = append(diffs, d)
			}
			a, b = b, a+b
		}
		// interleave deterministically so that categories are spread over the row
		pix := make([]int, len(diffs))
		cur := 1 << 15
		step := 2731 // coprime to len
		for i := range diffs {
			cur = (cur + diffs[(i*step)%len(diffs)]) & 0xFFFF
			pix[i] = cur
		}
		sel := rapid.SampledFrom([]int{1, 8}).Draw(t, "sel")
		return &Case{Img: &gen.Image{W: len(pix), H: 1, C: 1, P: 16, Class: "fibcats", Pix: pix}, Sel: sel}
	})
	return map[string]*rapid.Generator[*Case]{"P>=15&sel4-7": hiP, "dht-len16": fib, "cat16": cat16, "65535-strip": strips}
}

func TestQuota(t *testing.T) { core.RunQuota(t, ID, quota(), Check) }

// TestExhaustive enumerates all images of the listed small shapes at P=2 (and P=3 for at most
// 6 samples quick / 7 thorough) for every selector, sharded by VERIF_SHARD/VERIF_SHARDS.
func TestExhaustive(t *testing.T) {
	shard, shards := core.EnvInt("VERIF_SHARD", 0), max(1, core.EnvInt("VERIF_SHARDS", 1))
	type shape struct{ w, h, p int }
	var shapes []shape
	maxN2, maxN3 := 6, 4
	if core.Thorough() {
		maxN2, maxN3 = 9, 6
	}
	for w := 1; w <= 3; w++ {
		for h := 1; h <= 3; h++ {
			if w*h <= maxN2 {
				shapes = append(shapes, shape{w, h, 2})
			}
			if w*h <= maxN3 {
				shapes = append(shapes, shape{w, h, 3})
			}
		}
	}
	total := int64(0)
	idx := 0
	for _, s := range shapes {
		n := s.w * s.h
		levels := 1 << uint(s.p)
		cnt := 1
		for i := 0; i < n; i++ {
			cnt *= levels
		}
		for code := 0; code < cnt; code++ {
			idx++
			if idx%shards != shard {
				continue
			}
			pix := make([]int, n)
			x := code
			for i := range pix {
				pix[i] = x % levels
				x /= levels
			}
			for sel := 0; sel <= 8; sel++ {
				c := &Case{Img: &gen.Image{W: s.w, H: s.h, C: 1, P: s.p, Class: "enum", Pix: pix}, Sel: sel}
				o := Check(c)
				if o.Fail != nil {
					core.Eval(t, ID, "exhaustive", c, Check)
				}
				core.RecordLight(uint64(code)<<16|uint64(s.w)<<12|uint64(s.h)<<8|uint64(s.p)<<4|uint64(sel), o.NonTrivial, "exhaustive")
				total++
			}
		}
	}
	core.ExhaustiveDone(fmt.Sprintf("all 1-component images of shapes w,h<=3 with <=%d samples at P=2 and <=%d samples at P=3, selectors 0..7 and SV1", maxN2, maxN3), total*int64(shards))
	core.AddSample(map[string]any{"exhaustive": "3x2 P=2", "pix": []int{0, 3, 3, 0, 1, 2}, "sel": 4})
}

// TestExhaustiveDiff pushes all 65536 difference values through the library's category /
// magnitude coder and back, with a table that contains all 17 categories.
func TestExhaustiveDiff(t *testing.T) {
	var bits [16]int
	lens := []int{2, 3, 3, 3, 3, 3, 4, 5, 6, 7, 8, 9, 10, 11, 12, 13, 14}
	var vals []byte
	for l := 1; l <= 16; l++ {
		for s, sl := range lens {
			if sl == l {
				bits[l-1]++
				vals = append(vals, byte(s))
			}
		}
	}
	table := standard.BuildStandardHuffmanTable(bits, vals)
	codes := standard.BuildHuffmanCodes(table)
	var buf bytes.Buffer
	enc := standard.NewHuffmanEncoder(&buf)
	for d := -32768; d <= 32767; d++ {
		cat, b := enc.EncodeLosslessDifference(d)
		if err := enc.WriteBits(uint32(codes[cat].Code), codes[cat].Len); err != nil {
			t.Fatalf("harness: %v", err)
		}
		if cat > 0 && cat != 16 {
			_ = enc.WriteBits(b, cat)
		}
	}
	_ = enc.Flush()
	dec := standard.NewHuffmanDecoder(bytes.NewReader(buf.Bytes()))
	for d := -32768; d <= 32767; d++ {
		type dc struct{ Diff int }
		check := func(c dc) (o core.Outcome) {
			o.NonTrivial = true
			cat, err := dec.Decode(table)
			if err != nil {
				o.Fail = core.Failf("decode-error", "diff %d: %v", c.Diff, err)
				return
			}
			got, err := dec.ReceiveLosslessDifference(int(cat))
			if err != nil || got != c.Diff {
				o.Fail = core.Failf("mismatch", "difference %d decoded as %d (cat %d, err %v)", c.Diff, got, cat, err)
			}
			return
		}
		o := check(dc{d})
		if o.Fail != nil {
			t.Fatalf("VERIF-FAIL %s", o.Fail)
		}
		core.RecordLight(uint64(d+32768)|1<<40, true, "exhaustive-diff")
	}
	core.ExhaustiveDone("all 65536 difference values through EncodeLosslessDifference/WriteBits -> Decode/ReceiveLosslessDifference", 65536)
}

// TestBig: the free generator's cases at sizes where a dimension or the sample count crosses a
// power of two (255..257, 511..513, 1023..1025, 4095..4097 with a short other side; both sides
// 250..300, i.e. more than 2^16 samples).
func TestBig(t *testing.T) {
	g := rapid.Custom(func(t *rapid.T) *Case {
		c := Gen(t)
		d := gen.BigGeometry().Draw(t, "big")
		c.Img.Resize(d[0], d[1])
		return c
	})
	core.RunSharded(t, ID, 24, 600, g, Check)
}
