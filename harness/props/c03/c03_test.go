// C03 JPEG-LS Lossless: exact reconstruction at every bit depth.
package c03

import (
	"bytes"
	"fmt"
	"testing"

	"github.com/cocosip/go-dicom-codecs/jpegls/lossless"
	"pgregory.net/rapid"

	"verif/harness/core"
	"verif/harness/gen"
	"verif/harness/jls"
	"verif/harness/ref/t87"
)

const ID = "C03"

func TestMain(m *testing.M) { core.Main(m, ID) }

type Case struct{ Img *gen.Image }

func Gen(t *rapid.T) *Case { return &Case{Img: jls.ImageGen(-1).Draw(t, "img")} }

func Check(c *Case) (o core.Outcome) {
	im := c.Img
	px := im.Bytes()
	orig := append([]byte(nil), px...)
	o.NonTrivial = jls.HasRunOrJump(im)
	o.Label("P=%d", im.P)
	o.Label("comps=%d", im.C)
	o.Label("class=%s", im.Class)
	if im.W == 1 {
		o.Label("width1")
	}
	stream, err := lossless.Encode(px, im.W, im.H, im.C, im.P)
	if err != nil {
		o.Fail = core.Failf("encode-error", "%v", err)
		return
	}
	if !bytes.Equal(px, orig) {
		o.Fail = core.Failf("input-modified", "Encode changed the pixel buffer")
		return
	}
	// labels observed from the stream by the independent decoder (not an oracle here: C14 owns that)
	if ri, err := t87.Decode(stream); err == nil {
		st := ri.Stats
		if st.Escapes > 0 {
			o.Label("escape-code")
		}
		if st.Resets > 0 {
			o.Label("context-reset")
		}
		if st.Interrupt0 > 0 {
			o.Label("interrupt-type0")
		}
		if st.Interrupt1 > 0 {
			o.Label("interrupt-type1")
		}
		if st.RunsToEOL > 0 {
			o.Label("run-to-eol")
		}
		if st.MaxRunIndex >= 16 {
			o.Label("runindex>=16")
		}
		if st.StuffedFF > 0 {
			o.Label("stuffed")
		}
	}
	scopy := append([]byte(nil), stream...)
	got, w, h, comps, p, err := lossless.Decode(stream)
	if err != nil {
		o.Fail = core.Failf("decode-error", "%v", err)
		return
	}
	if !bytes.Equal(stream, scopy) {
		o.Fail = core.Failf("input-modified", "Decode changed the stream buffer")
		return
	}
	if w != im.W || h != im.H || comps != im.C || p != im.P {
		o.Fail = core.Failf("geometry", "decoder reports %dx%dx%d P=%d, source %dx%dx%d P=%d", w, h, comps, p, im.W, im.H, im.C, im.P)
		return
	}
	if !bytes.Equal(got, orig) {
		i := 0
		for i < len(got) && i < len(orig) && got[i] == orig[i] {
			i++
		}
		o.Fail = core.Failf("mismatch", "decoded bytes differ (len %d vs %d, first diff at byte %d)", len(got), len(orig), i)
	}
	return
}

func TestRapid(t *testing.T)  { core.RunRapid(t, ID, Gen, Check) }
func TestReplay(t *testing.T) { core.RunReplay(t, ID, &Case{}, Check) }

func TestQuota(t *testing.T) {
	q := map[string]*rapid.Generator[*Case]{}
	// every precision with two-level content (full-range jumps)
	q["twolevel-everyP"] = rapid.Custom(func(t *rapid.T) *Case {
		im := &gen.Image{W: rapid.IntRange(1, 12).Draw(t, "w"), H: rapid.IntRange(1, 8).Draw(t, "h"), C: rapid.SampledFrom([]int{1, 3}).Draw(t, "c"),
			P: rapid.IntRange(2, 16).Draw(t, "P"), Class: rapid.SampledFrom([]string{"twolevel", "altext"}).Draw(t, "cl"), Seed: rapid.Uint64().Draw(t, "seed")}
		return &Case{Img: im}
	})
	// long runs: run index climbs (J table), incl. 65535-wide lines
	q["longruns"] = rapid.Custom(func(t *rapid.T) *Case {
		w := rapid.SampledFrom([]int{4096, 32768, 65535}).Draw(t, "w")
		if !core.Thorough() {
			w = rapid.SampledFrom([]int{4096, 32768}).Draw(t, "wq")
		}
		im := &gen.Image{W: w, H: rapid.IntRange(1, 2).Draw(t, "h"), C: 1, P: rapid.SampledFrom([]int{8, 12, 16}).Draw(t, "P"),
			Class: rapid.SampledFrom([]string{"constant", "sparse"}).Draw(t, "cl"), Seed: rapid.Uint64().Draw(t, "seed")}
		return &Case{Img: im}
	})
	q["width1"] = rapid.Custom(func(t *rapid.T) *Case {
		im := &gen.Image{W: 1, H: rapid.IntRange(1, 300).Draw(t, "h"), C: rapid.SampledFrom([]int{1, 3}).Draw(t, "c"),
			P: rapid.IntRange(2, 16).Draw(t, "P"), Class: rapid.SampledFrom([]string{"noise", "runs", "twolevel"}).Draw(t, "cl"), Seed: rapid.Uint64().Draw(t, "seed")}
		return &Case{Img: im}
	})
	// a context must see RESET=64 occurrences: a larger smooth image
	q["context-reset"] = rapid.Custom(func(t *rapid.T) *Case {
		im := &gen.Image{W: 64, H: 48, C: 1, P: rapid.IntRange(2, 16).Draw(t, "P"), Class: rapid.SampledFrom([]string{"noise", "gradient"}).Draw(t, "cl"), Seed: rapid.Uint64().Draw(t, "seed")}
		return &Case{Img: im}
	})
	core.RunQuota(t, ID, q, Check)
}

// TestExhaustive: all 1-component images up to 3x3 at P=2 and up to 2x2 at P=4 (thorough);
// quick enumerates shapes with at most 6 samples at P=2 and at most 3 samples at P=4.
func TestExhaustive(t *testing.T) {
	shard, shards := core.EnvInt("VERIF_SHARD", 0), max(1, core.EnvInt("VERIF_SHARDS", 1))
	max2, max4 := 6, 3
	if core.Thorough() {
		max2, max4 = 9, 4
	}
	total, idx := int64(0), 0
	for _, p := range []int{2, 4} {
		lim := max2
		maxDim := 3
		if p == 4 {
			lim, maxDim = max4, 2
			if !core.Thorough() {
				maxDim = 3
			}
		}
		for w := 1; w <= maxDim; w++ {
			for h := 1; h <= maxDim; h++ {
				n := w * h
				if n > lim {
					continue
				}
				levels := 1 << uint(p)
				cnt := 1
				for i := 0; i < n; i++ {
					cnt *= levels
				}
				for code := 0; code < cnt; code++ {
					idx++
					if idx%shards != shard {
						continue
					}
					pix := make([]int, n)
					x := code
					for i := range pix {
						pix[i] = x % levels
						x /= levels
					}
					c := &Case{Img: &gen.Image{W: w, H: h, C: 1, P: p, Class: "enum", Pix: pix}}
					o := Check(c)
					if o.Fail != nil {
						core.Eval(t, ID, "exhaustive", c, Check)
					}
					core.RecordLight(uint64(code)<<12|uint64(w)<<8|uint64(h)<<4|uint64(p), o.NonTrivial, "exhaustive")
					total++
				}
			}
		}
	}
	core.ExhaustiveDone(fmt.Sprintf("all 1-component images with <=%d samples (w,h<=3) at P=2 and <=%d samples at P=4", max2, max4), total*int64(shards))
	core.AddSample(map[string]any{"exhaustive": "3x2 P=2", "pix": []int{0, 3, 3, 0, 1, 2}})
}

// TestFlat: many flat lines (pure run mode: long sequences of 1 bits, i.e. 0xFF bytes and
// stuffed bytes in the output) followed by outliers of about half the range while the Golomb
// parameters are still small (31-bit writes: the escape prefix, long unary prefixes). This is
// the corner where the bit writer's buffer is full, holds two stuffed bytes and receives its
// longest write.
func TestFlat(t *testing.T) {
	shard, shards := core.EnvInt("VERIF_SHARD", 0), max(1, core.EnvInt("VERIF_SHARDS", 1))
	seed := core.EnvInt("VERIF_SEED", 1)
	n := 16000
	if core.Thorough() {
		n = 400000
	}
	g := rapid.Custom(func(t *rapid.T) *Case {
		p := rapid.SampledFrom([]int{11, 12, 12, 13, 14, 15, 16, 16, 8, 10}).Draw(t, "P")
		w, rows := rapid.IntRange(1, 64).Draw(t, "w"), rapid.IntRange(1, 80).Draw(t, "rows")
		maxv := 1<<p - 1
		bg := rapid.SampledFrom([]int{0, 0, maxv, maxv / 2, rapid.IntRange(0, maxv).Draw(t, "bgv")}).Draw(t, "bg")
		im := &gen.Image{W: w, H: rows + 1, C: 1, P: p, Class: "lit-flat-outlier"}
		im.Pix = make([]int, w*(rows+1))
		for i := range im.Pix {
			im.Pix[i] = bg
		}
		// outliers in the last line
		k := rapid.IntRange(1, min(w, 3)).Draw(t, "k")
		for i := 0; i < k; i++ {
			x := rapid.IntRange(0, min(w-1, 7)).Draw(t, "x")
			v := rapid.OneOf(rapid.IntRange(maxv/4, 3*maxv/4), rapid.IntRange(0, maxv)).Draw(t, "v")
			im.Pix[rows*w+x] = v
		}
		return &Case{Img: im}
	})
	for i := 0; i < n; i++ {
		if i%shards != shard {
			continue
		}
		core.Eval(t, ID, "quota", g.Example(seed*1000003+i), Check)
	}
}

// TestBig: the free generator's cases at sizes where a dimension or the sample count crosses a
// power of two (255..257, 511..513, 1023..1025, 4095..4097 with a short other side; both sides
// 250..300, i.e. more than 2^16 samples).
func TestBig(t *testing.T) {
	g := rapid.Custom(func(t *rapid.T) *Case {
		c := Gen(t)
		d := gen.BigGeometry().Draw(t, "big")
		c.Img.Resize(d[0], d[1])
		return c
	})
	core.RunSharded(t, ID, 24, 600, g, Check)
}
