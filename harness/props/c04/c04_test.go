// C04 JPEG 2000 reversible path: exact reconstruction for every single-tile configuration.
package c04

import (
	"bytes"
	"testing"

	"pgregory.net/rapid"

	"verif/harness/core"
	"verif/harness/gen"
	"verif/harness/j2k"
	"verif/harness/ref/walk"
)

const ID = "C04"

func TestMain(m *testing.M) { core.Main(m, ID) }

type Case struct {
	Img *gen.Image
	Cfg *j2k.Config
}

func maxDim() int {
	if core.Thorough() {
		return 600
	}
	return 96
}

func Gen(t *rapid.T) *Case {
	md := maxDim()
	if rapid.IntRange(0, 3).Draw(t, "big") > 0 {
		md = 40
	}
	return &Case{Img: j2k.ImageGen(md, []int{1, 2, 3, 4}, 1, 16, true).Draw(t, "img"), Cfg: j2k.ConfigGen().Draw(t, "cfg")}
}

func labels(o *core.Outcome, c *Case) {
	im, cfg := c.Img, c.Cfg
	o.Label("P=%d", im.P)
	o.Label("comps=%d", im.C)
	o.Label("levels=%d", cfg.Levels)
	o.Label("prog=%d", cfg.Prog)
	o.Label("layers=%d", cfg.Layers)
	o.Label("class=%s", im.Class)
	if im.Signed {
		o.Label("signed")
		if im.P < 8 {
			o.Label("signed&P<8")
		}
	}
	if cfg.Layers >= 2 {
		o.Label("layers>=2")
	}
	if cfg.MCT && im.C >= 3 {
		o.Label("mct")
	}
	if cfg.PW != 0 || cfg.PH != 0 {
		o.Label("precinct-nondefault")
	}
	if im.W < cfg.CBW && im.H < cfg.CBH {
		o.Label("image<codeblock")
	}
	if im.W == 1 || im.H == 1 {
		o.Label("strip")
	}
	// smallest LL size after the drawn number of levels (T.800 B-15 arithmetic, origin 0)
	w, h := im.W, im.H
	for i := 0; i < cfg.Levels; i++ {
		w, h = (w+1)/2, (h+1)/2
	}
	if cfg.Levels > 0 && (im.W>>uint(cfg.Levels) == 0 || im.H>>uint(cfg.Levels) == 0) {
		o.Label("empty-subband") // some HL/LH/HH band has zero width or height
	}
}

func Check(c *Case) (o core.Outcome) {
	im, cfg := c.Img, c.Cfg
	px := im.Bytes()
	orig := append([]byte(nil), px...)
	labels(&o, c)
	packets := cfg.Layers * (cfg.Levels + 1) * im.C
	o.NonTrivial = gen.Distinct(im.Samples()) >= 2 && packets >= 2
	stream, got, fail := j2k.RoundTrip(im, cfg, px)
	if stream != nil {
		if j, err := walk.WalkJ2K(stream); err == nil {
			if j.BodyFFCount() > 0 {
				o.Label("body-contains-FF")
			}
			if len(j.Parts) > 0 && len(j.Parts[0].Body) >= 256 {
				o.Label("body>=256B")
			}
			if len(j.Parts) > 0 && len(j.Parts[0].Body) >= 65536 {
				o.Label("body>=64KiB")
			}
		}
	}
	if fail != nil {
		o.Fail = fail
		return
	}
	if !bytes.Equal(px, orig) {
		o.Fail = core.Failf("input-modified", "Encode changed the pixel buffer")
		return
	}
	if !bytes.Equal(got, orig) {
		o.Fail = core.Failf("mismatch", "decoded samples differ: %s", j2k.FirstDiff(got, orig, im))
	}
	return
}

func TestRapid(t *testing.T)  { core.RunRapid(t, ID, Gen, Check) }
func TestReplay(t *testing.T) { core.RunReplay(t, ID, &Case{}, Check) }

func TestQuota(t *testing.T) {
	q := map[string]*rapid.Generator[*Case]{}
	for prog := 0; prog <= 4; prog++ {
		prog := prog
		q["prog"+string(rune('0'+prog))] = rapid.Custom(func(t *rapid.T) *Case {
			c := Gen(t)
			c.Cfg.Prog = prog
			return c
		})
	}
	q["layers>=2"] = rapid.Custom(func(t *rapid.T) *Case {
		c := Gen(t)
		c.Cfg.Layers = rapid.IntRange(2, 6).Draw(t, "layers")
		return c
	})
	q["levels0or6"] = rapid.Custom(func(t *rapid.T) *Case {
		c := Gen(t)
		c.Cfg.Levels = rapid.SampledFrom([]int{0, 6}).Draw(t, "lv")
		return c
	})
	q["P1or16"] = rapid.Custom(func(t *rapid.T) *Case {
		c := &Case{Img: j2k.ImageGen(40, []int{1, 2, 3, 4}, 1, 16, true).Draw(t, "img"), Cfg: j2k.ConfigGen().Draw(t, "cfg")}
		c.Img.P = rapid.SampledFrom([]int{1, 16}).Draw(t, "P")
		c.Img.Pix, c.Img.Class, c.Img.Seed = nil, "noise", rapid.Uint64().Draw(t, "seed")
		return c
	})
	// a single code-block contribution of more than 8 KiB / more than 2^13..2^16 bytes: 15/16-bit
	// noise in full 64x64 code-blocks (lengths that need the widest Lblock codes)
	q["codeblock>8KiB"] = rapid.Custom(func(t *rapid.T) *Case {
		im := &gen.Image{W: rapid.IntRange(128, 200).Draw(t, "w"), H: rapid.IntRange(128, 160).Draw(t, "h"), C: rapid.SampledFrom([]int{1, 3}).Draw(t, "c"),
			P: rapid.SampledFrom([]int{15, 16}).Draw(t, "P"), Class: "noise", Seed: rapid.Uint64().Draw(t, "seed")}
		cfg := j2k.ConfigGen().Draw(t, "cfg")
		cfg.CBW, cfg.CBH, cfg.Levels, cfg.PW, cfg.PH = 64, 64, rapid.IntRange(0, 2).Draw(t, "lv"), 0, 0
		return &Case{Img: im, Cfg: cfg}
	})
	// several code-blocks in the LL band together with a resolution-0 precinct of one sample
	// (a custom precinct size of 32 / 64 scaled down over 5 / 6 levels gives exponent 0 there):
	// needs an image wider than code-block x 2^levels
	q["LL-multiblock&precinct-exponent0"] = rapid.Custom(func(t *rapid.T) *Case {
		lv := rapid.IntRange(5, 6).Draw(t, "lv")
		pw := 32
		if lv == 6 && rapid.Bool().Draw(t, "p64") {
			pw = 64
		}
		cbw, cbh := rapid.SampledFrom([]int{4, 4, 8}).Draw(t, "cbw"), rapid.SampledFrom([]int{4, 4, 8}).Draw(t, "cbh")
		im := &gen.Image{W: rapid.IntRange(cbw<<uint(lv)+1, 330).Draw(t, "w"), H: rapid.IntRange(40, 200).Draw(t, "h"), C: rapid.SampledFrom([]int{1, 1, 3}).Draw(t, "c"),
			P: rapid.SampledFrom([]int{8, 12}).Draw(t, "P"), Class: "noise", Seed: rapid.Uint64().Draw(t, "seed")}
		if rapid.Bool().Draw(t, "swap") {
			im.W, im.H = im.H, im.W
			cbw, cbh = cbh, cbw
		}
		cfg := j2k.ConfigGen().Draw(t, "cfg")
		cfg.CBW, cfg.CBH, cfg.Levels, cfg.PW, cfg.PH = cbw, cbh, lv, pw, pw
		return &Case{Img: im, Cfg: cfg}
	})
	core.RunQuota(t, ID, q, Check)
}

// TestGrid sweeps every size 1..40 x 1..40 with a seed-dependent configuration (thorough).
func TestGrid(t *testing.T) {
	shard, shards := core.EnvInt("VERIF_SHARD", 0), max(1, core.EnvInt("VERIF_SHARDS", 1))
	seed := core.EnvInt("VERIF_SEED", 1)
	g := rapid.Custom(func(t *rapid.T) *Case {
		c := &Case{Img: &gen.Image{C: rapid.IntRange(1, 4).Draw(t, "c"), P: rapid.IntRange(1, 16).Draw(t, "P"), Signed: rapid.Bool().Draw(t, "s"),
			Class: "noise", Seed: rapid.Uint64().Draw(t, "seed")}, Cfg: j2k.ConfigGen().Draw(t, "cfg")}
		return c
	})
	n := 0
	for w := 1; w <= 40; w++ {
		for h := 1; h <= 40; h++ {
			n++
			if n%shards != shard {
				continue
			}
			c := g.Example(seed*1600 + n)
			c.Img.W, c.Img.H = w, h
			core.Eval(t, ID, "exhaustive", c, Check)
		}
	}
	core.ExhaustiveDone("size grid 1..40 x 1..40, one generated configuration and noise content per cell", 1600)
}

// TestBig: the free generator's cases at sizes where a dimension or the sample count crosses a
// power of two (255..257, 511..513, 1023..1025, 4095..4097 with a short other side; both sides
// 250..300, i.e. more than 2^16 samples).
func TestBig(t *testing.T) {
	g := rapid.Custom(func(t *rapid.T) *Case {
		c := Gen(t)
		d := gen.BigGeometry().Draw(t, "big")
		c.Img.Resize(d[0], d[1])
		c.Cfg.TileW, c.Cfg.TileH = 0, 0
		return c
	})
	core.RunSharded(t, ID, 24, 600, g, Check)
}
