// C05 JPEG 2000 Lossless-Only transfer syntaxes stay lossless under every accepted parameter set.
package c05

import (
	"bytes"
	"testing"

	"github.com/cocosip/go-dicom-codecs/codec"
	j2kl "github.com/cocosip/go-dicom-codecs/jpeg2000/lossless"
	"github.com/cocosip/go-dicom/pkg/dicom/transfer"
	dcodec "github.com/cocosip/go-dicom/pkg/imaging/codec"
	"github.com/cocosip/go-dicom/pkg/imaging/imagetypes"
	"pgregory.net/rapid"

	"verif/harness/core"
	"verif/harness/gen"
)

const ID = "C05"

func TestMain(m *testing.M) { core.Main(m, ID) }

// Params mirrors JPEG2000LosslessParameters.
type Params struct {
	NumLevels, Rate, NumLayers, Prog int
	RateLevels                        []int
	TargetRatio                       float64
	PCRD, AllowMCT, AppendLossless    bool
}

type Case struct {
	Img    *gen.Image // P = BitsStored, Signed = PixelRepresentation
	Frames int        // 1..3 frames (frame k uses Seed+k)
	UID    string     // "90" or "92"
	Mode   string     // nil | typed | generic
	Par    *Params    `json:",omitempty"`
}

func genParams(t *rapid.T) *Params {
	p := &Params{
		NumLevels:   rapid.IntRange(0, 6).Draw(t, "levels"),
		NumLayers:   rapid.IntRange(1, 10).Draw(t, "layers"),
		Prog:        rapid.IntRange(0, 4).Draw(t, "prog"),
		PCRD:        rapid.Bool().Draw(t, "pcrd"),
		AllowMCT:    rapid.Bool().Draw(t, "mct"),
		AppendLossless: rapid.Bool().Draw(t, "append"),
	}
	if p.AppendLossless {
		p.Rate = rapid.SampledFrom([]int{0, 1, 2, 5, 10, 20, 20, 40, 100, 640, 1280}).Draw(t, "rate")
		if rapid.Bool().Draw(t, "anyrate") {
			p.Rate = rapid.IntRange(0, 1280).Draw(t, "rateU")
		}
		p.TargetRatio = rapid.SampledFrom([]float64{0, 0, 0.5, 1, 2, 7.5, 8, 9, 20, 100}).Draw(t, "ratio")
	}
	// a strictly descending ladder, possibly empty
	n := rapid.IntRange(0, 9).Draw(t, "nlevels")
	cur := rapid.IntRange(1, 2000).Draw(t, "top")
	for i := 0; i < n && cur >= 1; i++ {
		p.RateLevels = append(p.RateLevels, cur)
		cur = cur - rapid.IntRange(1, max(1, cur/2+1)).Draw(t, "step")
	}
	if rapid.IntRange(0, 3).Draw(t, "defladder") == 0 {
		p.RateLevels = []int{1280, 640, 320, 160, 80, 40, 20, 10, 5}
	}
	return p
}

func genImage(t *rapid.T, maxDim int) *gen.Image {
	o := gen.ImageOpts{MaxDim: maxDim, MaxArea: maxDim * maxDim, Comps: []int{1, 3}, PMin: 2, PMax: 16, Signed: true,
		Classes: []string{"noise", "noise", "gradient", "twolevel", "constant", "sparse", "extremes", "runs", "lpgain"}, LiteralMax: 30}
	return gen.ImageGen(o).Draw(t, "img")
}

func Gen(t *rapid.T) *Case {
	md := 96
	if core.Thorough() {
		md = 600
	}
	if rapid.IntRange(0, 3).Draw(t, "small") > 0 {
		md = 40
	}
	c := &Case{Img: genImage(t, md), Frames: rapid.SampledFrom([]int{1, 1, 2}).Draw(t, "frames"),
		UID: rapid.SampledFrom([]string{"90", "92"}).Draw(t, "uid"), Mode: rapid.SampledFrom([]string{"nil", "typed", "typed", "generic"}).Draw(t, "mode")}
	if c.Mode != "nil" {
		c.Par = genParams(t)
	}
	return c
}

func frameInfo(im *gen.Image) *imagetypes.FrameInfo {
	ba := 8
	if im.P > 8 {
		ba = 16
	}
	pi := "MONOCHROME2"
	if im.C == 3 {
		pi = "RGB"
	}
	pr := uint16(0)
	if im.Signed {
		pr = 1
	}
	return &imagetypes.FrameInfo{Width: uint16(im.W), Height: uint16(im.H), BitsAllocated: uint16(ba), BitsStored: uint16(im.P),
		HighBit: uint16(im.P - 1), SamplesPerPixel: uint16(im.C), PixelRepresentation: pr, PhotometricInterpretation: pi}
}

func buildParams(c *Case) dcodec.Parameters {
	switch c.Mode {
	case "nil":
		return nil
	case "typed":
		p := j2kl.NewLosslessParameters()
		p.NumLevels, p.Rate, p.NumLayers, p.ProgressionOrder = c.Par.NumLevels, c.Par.Rate, c.Par.NumLayers, uint8(c.Par.Prog)
		p.RateLevels = append([]int(nil), c.Par.RateLevels...)
		p.TargetRatio, p.UsePCRDOpt, p.AllowMCT, p.AppendLosslessLayer = c.Par.TargetRatio, c.Par.PCRD, c.Par.AllowMCT, c.Par.AppendLossless
		return p
	default:
		p := dcodec.NewBaseParameters()
		p.SetParameter("numLevels", c.Par.NumLevels)
		p.SetParameter("rate", c.Par.Rate)
		p.SetParameter("rateLevels", append([]int(nil), c.Par.RateLevels...))
		p.SetParameter("numLayers", c.Par.NumLayers)
		p.SetParameter("progressionOrder", c.Par.Prog)
		p.SetParameter("targetRatio", c.Par.TargetRatio)
		p.SetParameter("usePCRDOpt", c.Par.PCRD)
		p.SetParameter("allowMCT", c.Par.AllowMCT)
		p.SetParameter("appendLosslessLayer", c.Par.AppendLossless)
		return p
	}
}

func Check(c *Case) (o core.Outcome) {
	im := c.Img
	info := frameInfo(im)
	ts := transfer.JPEG2000Lossless
	if c.UID == "92" {
		ts = transfer.JPEG2000Part2MultiComponentLosslessOnly
	}
	cd, ok := dcodec.GetGlobalRegistry().GetCodec(ts)
	if !ok {
		panic("harness: codec not registered")
	}
	o.Label("uid=%s", c.UID)
	o.Label("mode=%s", c.Mode)
	o.Label("P=%d", im.P)
	o.Label("spp=%d", im.C)
	if im.Signed {
		o.Label("signed")
	}
	if im.W < 64 && im.H < 64 {
		o.Label("image<codeblock")
	}
	if im.W == 1 || im.H == 1 {
		o.Label("strip")
	}
	pcrd := c.Mode == "nil" // defaults carry Rate=20
	if c.Par != nil {
		pcrd = c.Par.Rate > 0 || c.Par.TargetRatio > 0
		o.Label("levels=%d", c.Par.NumLevels)
		o.Label("prog=%d", c.Par.Prog)
		if !c.Par.AppendLossless {
			o.Label("no-append")
		}
		if len(c.Par.RateLevels) == 0 {
			o.Label("empty-ladder")
		}
		if c.Par.TargetRatio > 0 {
			o.Label("targetratio>0")
		}
	}
	if pcrd {
		o.Label("rate-target")
	}
	src := codec.NewTestPixelData(info)
	var frames [][]byte
	distinct := 0
	for k := 0; k < c.Frames; k++ {
		fi := *im
		if fi.Pix == nil {
			fi.Seed = im.Seed + uint64(k)*977
		}
		f := fi.Bytes()
		distinct = max(distinct, gen.Distinct(fi.Samples()))
		frames = append(frames, f)
		_ = src.AddFrame(append([]byte(nil), f...))
	}
	o.NonTrivial = pcrd && distinct >= 2
	enc := codec.NewTestPixelData(info)
	if err := cd.Encode(src, enc, buildParams(c)); err != nil {
		o.Fail = core.Failf("encode-error", "%v", err)
		return
	}
	for k := range frames {
		f, _ := src.GetFrame(k)
		if !bytes.Equal(f, frames[k]) {
			o.Fail = core.Failf("input-modified", "Encode changed source frame %d", k)
			return
		}
	}
	if enc.FrameCount() != c.Frames {
		o.Fail = core.Failf("frame-count", "encoded %d frames, source has %d", enc.FrameCount(), c.Frames)
		return
	}
	dec := codec.NewTestPixelData(info)
	if err := cd.Decode(enc, dec, nil); err != nil {
		o.Fail = core.Failf("decode-error", "%v", err)
		return
	}
	if dec.FrameCount() != c.Frames {
		o.Fail = core.Failf("frame-count", "decoded %d frames, source has %d", dec.FrameCount(), c.Frames)
		return
	}
	for k := range frames {
		got, _ := dec.GetFrame(k)
		if !bytes.Equal(got, frames[k]) {
			n := 0
			for i := range got {
				if i < len(frames[k]) && got[i] != frames[k][i] {
					n++
				}
			}
			o.Fail = core.Failf("mismatch", "frame %d: decoded bytes differ from the source (len %d vs %d, %d bytes differ)", k, len(got), len(frames[k]), n)
			return
		}
	}
	return
}

func TestRapid(t *testing.T)  { core.RunRapid(t, ID, Gen, Check) }
func TestReplay(t *testing.T) { core.RunReplay(t, ID, &Case{}, Check) }

func TestQuota(t *testing.T) {
	q := map[string]*rapid.Generator[*Case]{
		"default-params-small": rapid.Custom(func(t *rapid.T) *Case {
			return &Case{Img: genImage(t, 24), Frames: 1, UID: rapid.SampledFrom([]string{"90", "92"}).Draw(t, "uid"), Mode: "nil"}
		}),
		"strip": rapid.Custom(func(t *rapid.T) *Case {
			c := Gen(t)
			if rapid.Bool().Draw(t, "wide") {
				c.Img.H = 1
			} else {
				c.Img.W = 1
			}
			c.Img.Pix, c.Img.Class, c.Img.Seed = nil, "noise", rapid.Uint64().Draw(t, "seed")
			return c
		}),
	}
	core.RunQuota(t, ID, q, Check)
}

// TestGrid: every width 1..40 against heights 1..80 (thorough), default or generated parameters.
func TestGrid(t *testing.T) {
	shard, shards := core.EnvInt("VERIF_SHARD", 0), max(1, core.EnvInt("VERIF_SHARDS", 1))
	seed := core.EnvInt("VERIF_SEED", 1)
	g := rapid.Custom(func(t *rapid.T) *Case { return Gen(t) })
	n := 0
	for w := 1; w <= 40; w++ {
		for h := 1; h <= 80; h++ {
			n++
			if n%shards != shard {
				continue
			}
			c := g.Example(seed*3200 + n)
			c.Img.W, c.Img.H = w, h
			c.Img.Pix, c.Img.Class, c.Img.Seed = nil, "noise", uint64(seed*3200+n)
			c.Frames = 1
			core.Eval(t, ID, "exhaustive", c, Check)
		}
	}
	core.ExhaustiveDone("size grid: widths 1..40 x heights 1..80, one generated parameter set per cell", 3200)
}

// TestBig: the free generator's cases at sizes where a dimension or the sample count crosses a
// power of two (255..257, 511..513, 1023..1025, 4095..4097 with a short other side; both sides
// 250..300, i.e. more than 2^16 samples).
func TestBig(t *testing.T) {
	g := rapid.Custom(func(t *rapid.T) *Case {
		c := Gen(t)
		d := gen.BigGeometry().Draw(t, "big")
		c.Img.Resize(d[0], d[1])
		if c.Frames > 2 {
			c.Frames = 2
		}
		return c
	})
	core.RunSharded(t, ID, 24, 600, g, Check)
}
