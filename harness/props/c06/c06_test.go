// C06 HTJ2K Lossless (.201/.202): exact round trip and exact decode of the bundled
// third-party (OpenJPH / fo-dicom) codestreams.
package c06

import (
	"bytes"
	"encoding/json"
	"os"
	"path/filepath"
	"testing"

	"github.com/cocosip/go-dicom-codecs/codec"
	"github.com/cocosip/go-dicom-codecs/jpeg2000/htj2k"
	"github.com/cocosip/go-dicom/pkg/dicom/transfer"
	dcodec "github.com/cocosip/go-dicom/pkg/imaging/codec"
	"github.com/cocosip/go-dicom/pkg/imaging/imagetypes"
	"pgregory.net/rapid"

	"verif/harness/core"
	"verif/harness/gen"
)

const ID = "C06"

func TestMain(m *testing.M) { core.Main(m, ID) }

type Case struct {
	Img        *gen.Image // P = BitsAllocated (8 or 16): the codec codes the whole container
	BitsStored int
	UID        string // "201" | "202"
	Mode       string // nil | typed | generic
	BW, BH     int    `json:",omitempty"`
	Levels     int    `json:",omitempty"`
}

func maxDim() int {
	if core.Thorough() {
		return 600
	}
	return 96
}

func Gen(t *rapid.T) *Case {
	md := maxDim()
	if rapid.IntRange(0, 3).Draw(t, "small") > 0 {
		md = 40
	}
	o := gen.ImageOpts{MaxDim: md, MaxArea: md * md, Comps: []int{1, 3}, PMin: 8, PMax: 8, Signed: true,
		Classes: []string{"noise", "noise", "constant", "sparse", "twolevel", "gradient", "extremes", "lpgain"}, LiteralMax: 30}
	im := gen.ImageGen(o).Draw(t, "img")
	if rapid.Bool().Draw(t, "16bit") {
		im.P = 16
		if im.Pix != nil { // spread literal samples over the 16-bit range
			for i, v := range im.Pix {
				im.Pix[i] = v * 257
				if im.Signed {
					im.Pix[i] = v * 256
				}
			}
		}
	}
	c := &Case{Img: im, UID: rapid.SampledFrom([]string{"201", "202"}).Draw(t, "uid"),
		Mode: rapid.SampledFrom([]string{"nil", "typed", "typed", "generic"}).Draw(t, "mode")}
	c.BitsStored = rapid.IntRange(2, im.P).Draw(t, "bs")
	if rapid.Bool().Draw(t, "bsfull") {
		c.BitsStored = im.P
	}
	if c.Mode != "nil" {
		c.BW = rapid.SampledFrom([]int{4, 8, 16, 32, 64}).Draw(t, "bw")
		c.BH = rapid.SampledFrom([]int{4, 8, 16, 32, 64}).Draw(t, "bh")
		c.Levels = rapid.IntRange(0, 6).Draw(t, "levels")
	}
	return c
}

func frameInfo(c *Case) *imagetypes.FrameInfo {
	im := c.Img
	pi := "MONOCHROME2"
	if im.C == 3 {
		pi = "RGB"
	}
	pr := uint16(0)
	if im.Signed {
		pr = 1
	}
	return &imagetypes.FrameInfo{Width: uint16(im.W), Height: uint16(im.H), BitsAllocated: uint16(im.P), BitsStored: uint16(c.BitsStored),
		HighBit: uint16(c.BitsStored - 1), SamplesPerPixel: uint16(im.C), PixelRepresentation: pr, PhotometricInterpretation: pi}
}

func getCodec(uid string) dcodec.Codec {
	ts := transfer.HTJ2KLossless
	if uid == "202" {
		ts = transfer.HTJ2KLosslessRPCL
	}
	cd, ok := dcodec.GetGlobalRegistry().GetCodec(ts)
	if !ok {
		panic("harness: HTJ2K codec not registered")
	}
	return cd
}

func Check(c *Case) (o core.Outcome) {
	im := c.Img
	info := frameInfo(c)
	cd := getCodec(c.UID)
	o.Label("uid=%s", c.UID)
	o.Label("mode=%s", c.Mode)
	o.Label("ba=%d", im.P)
	o.Label("spp=%d", im.C)
	if im.Signed {
		o.Label("signed")
	}
	if im.W == 1 {
		o.Label("width1")
	}
	if im.H == 1 {
		o.Label("height1")
	}
	if im.W%2 == 1 {
		o.Label("odd-width")
	}
	if c.Mode != "nil" {
		o.Label("levels=%d", c.Levels)
		if c.BW == 4 && c.BH == 4 {
			o.Label("block4x4")
		}
	}
	s := im.Samples()
	nz := 0
	for _, v := range s {
		if v != 0 {
			nz++
		}
	}
	o.NonTrivial = nz >= 1 && im.W*im.H >= 4
	var par dcodec.Parameters
	switch c.Mode {
	case "typed":
		p := htj2k.NewHTJ2KLosslessParameters()
		p.BlockWidth, p.BlockHeight, p.NumLevels = c.BW, c.BH, c.Levels
		par = p
	case "generic":
		p := dcodec.NewBaseParameters()
		p.SetParameter("blockWidth", c.BW)
		p.SetParameter("blockHeight", c.BH)
		p.SetParameter("numLevels", c.Levels)
		par = p
	}
	px := im.Bytes()
	orig := append([]byte(nil), px...)
	src := codec.NewTestPixelData(info)
	_ = src.AddFrame(px)
	enc := codec.NewTestPixelData(info)
	if err := cd.Encode(src, enc, par); err != nil {
		o.Fail = core.Failf("encode-error", "%v", err)
		return
	}
	if !bytes.Equal(px, orig) {
		o.Fail = core.Failf("input-modified", "Encode changed the source frame")
		return
	}
	dec := codec.NewTestPixelData(info)
	if err := cd.Decode(enc, dec, nil); err != nil {
		o.Fail = core.Failf("decode-error", "%v", err)
		return
	}
	if dec.FrameCount() != 1 {
		o.Fail = core.Failf("frame-count", "decoded %d frames", dec.FrameCount())
		return
	}
	got, _ := dec.GetFrame(0)
	if !bytes.Equal(got, orig) {
		n := 0
		for i := range got {
			if i < len(orig) && got[i] != orig[i] {
				n++
			}
		}
		o.Fail = core.Failf("mismatch", "decoded bytes differ from the source (len %d vs %d, %d bytes differ)", len(got), len(orig), n)
	}
	return
}

func TestRapid(t *testing.T)  { core.RunRapid(t, ID, Gen, Check) }
func TestReplay(t *testing.T) { core.RunReplay(t, ID, &Case{}, Check) }

func TestQuota(t *testing.T) {
	strip := func(wide bool) *rapid.Generator[*Case] {
		return rapid.Custom(func(t *rapid.T) *Case {
			c := Gen(t)
			if wide {
				c.Img.H = 1
			} else {
				c.Img.W = 1
			}
			c.Img.Pix, c.Img.Class, c.Img.Seed = nil, "noise", rapid.Uint64().Draw(t, "seed")
			return c
		})
	}
	q := map[string]*rapid.Generator[*Case]{
		"width1": strip(false), "height1": strip(true),
		"block4x4": rapid.Custom(func(t *rapid.T) *Case {
			c := Gen(t)
			c.Mode, c.BW, c.BH, c.Levels = "typed", 4, 4, rapid.IntRange(0, 6).Draw(t, "lv")
			return c
		}),
		"levels0": rapid.Custom(func(t *rapid.T) *Case {
			c := Gen(t)
			if c.Mode == "nil" {
				c.Mode, c.BW, c.BH = "typed", 64, 64
			}
			c.Levels = 0
			return c
		}),
	}
	core.RunQuota(t, ID, q, Check)
}

// TestFixtures enumerates the finite set of third-party codestreams listed in
// test-data/htj2k/interop/manifest.json: each must decode to exactly its input.raw.
func TestFixtures(t *testing.T) {
	root := "/repo/test-data/htj2k/interop"
	b, err := os.ReadFile(filepath.Join(root, "manifest.json"))
	if err != nil {
		t.Fatalf("harness: %v", err)
	}
	var man struct {
		Fixtures []struct {
			Name                      string
			Width, Height, Components int
			BitsAllocated, BitsStored int
			Signed                    bool
			InputRaw                  string
			Codestreams               map[string]struct{ Path string }
		}
	}
	if err := json.Unmarshal(b, &man); err != nil {
		t.Fatalf("harness: %v", err)
	}
	type fx struct{ Fixture, Stream string }
	n := 0
	for _, f := range man.Fixtures {
		for key, cs := range f.Codestreams {
			f, key, cs := f, key, cs
			check := func(x fx) (o core.Outcome) {
				o.NonTrivial = true
				o.Label("fixture")
				raw, err := os.ReadFile(filepath.Join(root, f.InputRaw))
				if err != nil {
					panic("harness: " + err.Error())
				}
				stream, err := os.ReadFile(filepath.Join(root, cs.Path))
				if err != nil {
					panic("harness: " + err.Error())
				}
				if len(raw) == 0 || len(stream) == 0 {
					panic("harness: empty fixture file " + cs.Path)
				}
				pr := uint16(0)
				if f.Signed {
					pr = 1
				}
				info := &imagetypes.FrameInfo{Width: uint16(f.Width), Height: uint16(f.Height), BitsAllocated: uint16(f.BitsAllocated), BitsStored: uint16(f.BitsStored),
					HighBit: uint16(f.BitsStored - 1), SamplesPerPixel: uint16(f.Components), PixelRepresentation: pr}
				uid := "201"
				if key == "htj2k_lossless_rpcl" {
					uid = "202"
				}
				src := codec.NewTestPixelData(info)
				_ = src.AddFrame(stream)
				dec := codec.NewTestPixelData(info)
				if err := getCodec(uid).Decode(src, dec, nil); err != nil {
					o.Fail = core.Failf("decode-error", "%s: %v", cs.Path, err)
					return
				}
				got, _ := dec.GetFrame(0)
				if !bytes.Equal(got, raw) {
					o.Fail = core.Failf("mismatch", "%s decodes to bytes different from %s (len %d vs %d)", cs.Path, f.InputRaw, len(got), len(raw))
				}
				return
			}
			core.Eval(t, ID, "exhaustive", fx{f.Name, key}, check)
			n++
		}
	}
	if n != 14 {
		t.Fatalf("harness: manifest lists %d codestreams, the property names 14", n)
	}
	core.ExhaustiveDone("third-party HTJ2K lossless codestreams of test-data/htj2k/interop/manifest.json", int64(n))
}

// TestGrid: every size 1..80 x 1..80 once (thorough), parameters generated per cell.
func TestGrid(t *testing.T) {
	shard, shards := core.EnvInt("VERIF_SHARD", 0), max(1, core.EnvInt("VERIF_SHARDS", 1))
	seed := core.EnvInt("VERIF_SEED", 1)
	g := rapid.Custom(func(t *rapid.T) *Case { return Gen(t) })
	n := 0
	for w := 1; w <= 80; w++ {
		for h := 1; h <= 80; h++ {
			n++
			if n%shards != shard {
				continue
			}
			c := g.Example(seed*6400 + n)
			c.Img.W, c.Img.H = w, h
			c.Img.Pix, c.Img.Class, c.Img.Seed = nil, "noise", uint64(seed*6400+n)
			core.Eval(t, ID, "exhaustive", c, Check)
		}
	}
	core.ExhaustiveDone("size grid 1..80 x 1..80, one generated parameter set per cell", 6400)
}

// TestBig: the free generator's cases at sizes where a dimension or the sample count crosses a
// power of two (255..257, 511..513, 1023..1025, 4095..4097 with a short other side; both sides
// 250..300, i.e. more than 2^16 samples).
func TestBig(t *testing.T) {
	g := rapid.Custom(func(t *rapid.T) *Case {
		c := Gen(t)
		d := gen.BigGeometry().Draw(t, "big")
		c.Img.Resize(d[0], d[1])
		return c
	})
	core.RunSharded(t, ID, 24, 600, g, Check)
}
