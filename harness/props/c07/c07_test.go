// C07 JPEG-LS Near-Lossless: every reconstructed sample is within NEAR of the original.
package c07

import (
	"bytes"
	"testing"

	"github.com/cocosip/go-dicom-codecs/jpegls/nearlossless"
	"pgregory.net/rapid"

	"verif/harness/core"
	"verif/harness/gen"
	"verif/harness/jls"
)

const ID = "C07"

func TestMain(m *testing.M) { core.Main(m, ID) }

type Case struct {
	Img  *gen.Image
	Near int
}

func Gen(t *rapid.T) *Case {
	p := rapid.IntRange(2, 16).Draw(t, "P")
	near := jls.NearGen(p, true).Draw(t, "near")
	im := jls.ImageGen(near).Draw(t, "img")
	im.P = p
	if im.Pix != nil { // literal samples were drawn for another precision: clamp into range
		for i, v := range im.Pix {
			im.Pix[i] = v & (1<<uint(p) - 1)
		}
	}
	return &Case{Img: im, Near: near}
}

func nearClass(near, p int) string {
	switch {
	case near == 0:
		return "near=0"
	case near <= 3:
		return "near=1-3"
	case near == jls.MaxNear(p):
		return "near=max"
	}
	return "near=mid"
}

func Check(c *Case) (o core.Outcome) {
	im := c.Img
	px := im.Bytes()
	orig := append([]byte(nil), px...)
	src := im.Samples()
	o.Label("P=%d", im.P)
	o.Label("comps=%d", im.C)
	o.Label("class=%s", im.Class)
	o.Label("%s", nearClass(c.Near, im.P))
	stream, err := nearlossless.Encode(px, im.W, im.H, im.C, im.P, c.Near)
	if err != nil {
		o.Fail = core.Failf("encode-error", "%v", err)
		return
	}
	if !bytes.Equal(px, orig) {
		o.Fail = core.Failf("input-modified", "Encode changed the pixel buffer")
		return
	}
	got, w, h, comps, p, near, err := nearlossless.Decode(stream)
	if err != nil {
		o.Fail = core.Failf("decode-error", "%v", err)
		return
	}
	if w != im.W || h != im.H || comps != im.C || p != im.P {
		o.Fail = core.Failf("geometry", "decoder reports %dx%dx%d P=%d, source %dx%dx%d P=%d", w, h, comps, p, im.W, im.H, im.C, im.P)
		return
	}
	if near != c.Near {
		o.Fail = core.Failf("near", "decoder reports NEAR=%d, requested %d", near, c.Near)
		return
	}
	if len(got) != len(orig) {
		o.Fail = core.Failf("mismatch", "decoded %d bytes, want %d", len(got), len(orig))
		return
	}
	dec := gen.Unpack(got, im.P)
	maxv := 1<<uint(im.P) - 1
	acted := false
	atEdge := false
	for i, v := range src {
		d := dec[i] - v
		if d < 0 {
			d = -d
		}
		if d > c.Near {
			o.Fail = core.Failf("bound", "sample %d: source %d decoded %d, |diff|=%d > NEAR=%d", i, v, dec[i], d, c.Near)
			return
		}
		if dec[i] > maxv {
			o.Fail = core.Failf("range", "sample %d decoded to %d > MAXVAL %d", i, dec[i], maxv)
			return
		}
		if d > 0 {
			acted = true
		}
		if v < c.Near || v > maxv-c.Near {
			atEdge = true
		}
	}
	if atEdge && c.Near > 0 {
		o.Label("sample-within-near-of-range-end")
	}
	o.NonTrivial = c.Near == 0 || acted
	return
}

func TestRapid(t *testing.T)  { core.RunRapid(t, ID, Gen, Check) }
func TestReplay(t *testing.T) { core.RunReplay(t, ID, &Case{}, Check) }

// TestNearSweep visits every NEAR in 0..min(255,MAXVAL/2) at every precision 2..16 with a
// few small images each (quick: one image, thorough: four), sharded.
func TestNearSweep(t *testing.T) {
	shard, shards := core.EnvInt("VERIF_SHARD", 0), max(1, core.EnvInt("VERIF_SHARDS", 1))
	seed := uint64(core.EnvInt("VERIF_SEED", 1))
	per := 1
	if core.Thorough() {
		per = 4
	}
	classes := []string{"nearedge", "nearruns", "noise", "ramp"}
	n, idx := int64(0), 0
	for p := 2; p <= 16; p++ {
		for near := 0; near <= jls.MaxNear(p); near++ {
			idx++
			if idx%shards != shard {
				continue
			}
			for k := 0; k < per; k++ {
				cl := classes[(k+near)%len(classes)]
				im := &gen.Image{W: 9 + (near+k)%7, H: 5 + k, C: 1 + 2*((near+p+k)%2), P: p, Class: cl, Seed: seed*7919 + uint64(p*1000+near*4+k), Par: near}
				if cl == "ramp" {
					im.Par = 2*near + 1 - k%2
				}
				core.Eval(t, ID, "exhaustive", &Case{Img: im, Near: near}, Check)
				n++
			}
		}
	}
	core.ExhaustiveDone("every (P, NEAR) pair with P in 2..16 and NEAR in 0..min(255,MAXVAL/2) visited", 2250)
}

func TestQuota(t *testing.T) {
	q := map[string]*rapid.Generator[*Case]{
		"near=max": rapid.Custom(func(t *rapid.T) *Case {
			c := Gen(t)
			c.Near = jls.MaxNear(c.Img.P)
			return c
		}),
		"ramp-2near+1": rapid.Custom(func(t *rapid.T) *Case {
			p := rapid.IntRange(4, 16).Draw(t, "P")
			near := rapid.IntRange(1, min(6, jls.MaxNear(p))).Draw(t, "near")
			im := &gen.Image{W: rapid.IntRange(8, 80).Draw(t, "w"), H: rapid.IntRange(1, 6).Draw(t, "h"), C: rapid.SampledFrom([]int{1, 3}).Draw(t, "c"), P: p,
				Class: "ramp", Par: 2*near + rapid.IntRange(0, 1).Draw(t, "off")}
			return &Case{Img: im, Near: near}
		}),
	}
	core.RunQuota(t, ID, q, Check)
}

// TestBig: the free generator's cases at sizes where a dimension or the sample count crosses a
// power of two (255..257, 511..513, 1023..1025, 4095..4097 with a short other side; both sides
// 250..300, i.e. more than 2^16 samples).
func TestBig(t *testing.T) {
	g := rapid.Custom(func(t *rapid.T) *Case {
		c := Gen(t)
		d := gen.BigGeometry().Draw(t, "big")
		c.Img.Resize(d[0], d[1])
		return c
	})
	core.RunSharded(t, ID, 24, 600, g, Check)
}
