package c0809

import (
	"bytes"
	"fmt"
	"os"
	"sort"
	"strings"
	"testing"

	"pgregory.net/rapid"

	"verif/harness/core"
	"verif/harness/dec"
	"verif/harness/ref/preparse"
	"verif/harness/ref/walk"
)

// ID is C08 or C09 (VERIF_PROP): the same generated inputs are judged by either oracle.
var ID = func() string {
	if p := os.Getenv("VERIF_PROP"); p != "" {
		return p
	}
	return "C08"
}()

var (
	pool   []*Item
	byName = map[string]*Item{}
	worker *Worker
)

func TestMain(m *testing.M) {
	pool = BuildPool()
	for _, it := range pool {
		byName[it.Name] = it
	}
	fuzzing := false
	for _, a := range os.Args {
		if len(a) >= 10 && a[:10] == "-test.fuzz" {
			fuzzing = true // FuzzDecode decodes in-process; no decode worker needed
		}
	}
	if !fuzzing {
		var err error
		if worker, err = StartWorker(); err != nil {
			fmt.Println("harness: cannot start decode worker:", err)
			os.Exit(2)
		}
		defer worker.Kill()
	}
	core.Main(m, ID)
}

// Case is one decode request: the final bytes are stored literally so that a replay file is
// self-contained; Parent and Muts only describe how they were produced.
type Case struct {
	Entry  string
	Parent string   `json:",omitempty"`
	Muts   []string `json:",omitempty"`
	Input  []byte
	Info   *dec.Info `json:",omitempty"`
}

const (
	timeLimitMs   = 40000 // user CPU of the decode thread; see Check
	domainSamples = uint64(1) << 22
	maxInput      = 64 << 10
	baseBudget    = uint64(512) << 20
)

func budget(s uint64) uint64 { return baseBudget + 64*s }

func declared(c *Case) (uint64, bool) {
	if c.Entry == "codec:RLE" && c.Info != nil {
		w, h, s := uint64(max(0, c.Info.W)), uint64(max(0, c.Info.H)), uint64(max(0, c.Info.SPP))
		return w * h * s, true
	}
	return preparse.Declared(c.Input)
}

func hasLabel(o *core.Outcome, l string) bool {
	for _, x := range o.Labels {
		if x == l {
			return true
		}
	}
	return false
}

func magicOK(c *Case) bool {
	in := c.Input
	if c.Entry == "codec:RLE" {
		return len(in) >= 64
	}
	return len(in) >= 2 && in[0] == 0xFF && (in[1] == 0xD8 || in[1] == 0x4F)
}

func call(c *Case) (*dec.Response, *Death) {
	resp, d := worker.Call(c.Entry, c.Input, c.Info)
	if d != nil {
		w, err := StartWorker()
		if err != nil {
			panic("harness: cannot restart decode worker: " + err.Error())
		}
		worker = w
	}
	return resp, d
}

func Check(c *Case) (o core.Outcome) {
	o.Label("entry=%s", c.Entry)
	for _, m := range c.Muts {
		k := m
		for i := 0; i < len(m); i++ {
			if m[i] == ':' || m[i] == '(' {
				k = m[:i]
				break
			}
		}
		o.Label("mut=%s", k)
	}
	s, found := declared(c)
	inDomain := len(c.Input) <= maxInput && (!found || s <= domainSamples)
	if !inDomain {
		o.Label("out-of-domain")
	}
	if found {
		o.Label("frame-header-found")
	}
	if preparse.J2KPrecincts(c.Input) >= 1<<18 {
		o.Label("j2k-precincts>=2^18") // the slowest legal inputs: several microseconds per declared precinct
	}
	parent := byName[c.Parent]
	differs := parent == nil || !bytes.Equal(parent.Data, c.Input)
	o.NonTrivial = magicOK(c) && differs && (ID == "C08" || found)

	// Inputs that declare more than the C09 domain limit (2^22 samples) cost seconds each (gigabyte
	// allocations) and can only end in rejection, slow success or an allocation abort; a
	// deterministic 1-in-8 (thorough: 1-in-2) subset of them is executed, the rest is counted.
	if ID == "C09" && !inDomain {
		// outside the property's domain nothing is asserted: do not spend seconds on it
		core.Count("out_of_domain_not_executed", 1)
		o.NonTrivial = false
		return
	}
	if found && s > domainSamples {
		h := uint32(2166136261)
		for _, b := range c.Input {
			h = (h ^ uint32(b)) * 16777619
		}
		keep := uint32(8)
		if core.Thorough() {
			keep = 2
		}
		if h%keep != 0 {
			core.Count("skipped_huge_declared_size", 1)
			o.Label("skipped-huge")
			o.NonTrivial = false
			return
		}
	}
	resp, death := call(c)
	if death != nil && death.Kind != "stack-overflow" && ID == "C09" && inDomain {
		// confirm in a fresh worker before drawing any conclusion
		resp, death = call(c)
	}
	if death != nil {
		o.Label("worker-died:%s", death.Kind)
		switch {
		case death.Kind == "stack-overflow":
			o.Fail = &core.Failure{Kind: "fatal-stack-overflow", Msg: death.Detail}
		case ID == "C08":
			// an allocation abort or a hang is not a panic: it is C09's subject
			core.Count("resource_skipped", 1)
		case !inDomain:
			core.Count("resource_skipped_out_of_domain", 1)
		case death.Kind == "oom":
			o.Fail = &core.Failure{Kind: "fatal-oom", Msg: fmt.Sprintf("in-domain input (S=%d, %d bytes) aborted the process with out of memory under a %d KiB address space: %s", s, len(c.Input), AddressSpaceKiB, death.Detail)}
		case death.Kind == "timeout" && death.CPU*1000 > timeLimitMs:
			o.Fail = &core.Failure{Kind: "timeout", Msg: fmt.Sprintf("in-domain input (S=%d, %d bytes): %s, its thread having used %.1f s of user CPU time", s, len(c.Input), strings.SplitN(death.Detail, " |", 2)[0], death.CPU)}
		default:
			core.Count("inconclusive_worker_death", 1)
		}
		return
	}
	if resp.Err != "" {
		o.Label("rejected")
	} else if resp.Panic == "" {
		o.Label("decoded")
	}
	if ID == "C08" {
		if resp.Panic != "" {
			o.Fail = &core.Failure{Kind: "panic", Sig: resp.Sig, Msg: resp.Panic}
		}
		return
	}
	// C09
	if !inDomain {
		return
	}
	// The statement's bound is 10 s. User CPU time of one and the same decode was 2.3 s on the
	// idle machine and between 9 s and 34 s under load on this VM, so the check only calls a
	// violation beyond four times the bound; between 10 s and 40 s it counts "slow" cases.
	if resp.CPUms > 10000 && resp.CPUms <= timeLimitMs {
		core.Count("slow_10s_to_40s_user_cpu", 1)
		o.Label("cpu>10s")
	}
	if resp.CPUms > timeLimitMs {
		o.Fail = &core.Failure{Kind: "time", Msg: fmt.Sprintf("decode used %d ms of user CPU time on its thread (wall %d ms) for a %d-byte input declaring S=%d samples", resp.CPUms, resp.WallMs, len(c.Input), s)}
		return
	}
	b := budget(s)
	if !found {
		b = budget(0)
	}
	// The worker runs each decode under a soft memory limit of (what the runtime holds at the
	// start) + budget + 96 MiB (runtime/debug.SetMemoryLimit): the collector keeps the heap
	// below that whenever the live data fits, so a sampled growth of heap objects above
	// 1.125 x budget + 96 MiB shows live data beyond the budget rather than garbage awaiting
	// collection. (Before the limit was introduced the criterion had to be 2.2 x budget.)
	if resp.TotalAlloc > b && resp.PeakHeap > b+b/8+(96<<20) {
		o.Fail = &core.Failure{Kind: "memory", Msg: fmt.Sprintf("peak heap growth %d MiB (allocated %d MiB in total) exceeds the budget 512 MiB + 64*S = %d MiB for a %d-byte input declaring S=%d", resp.PeakHeap>>20, resp.TotalAlloc>>20, b>>20, len(c.Input), s)}
		return
	}
	if resp.TotalAlloc > 64<<20 {
		o.Label("alloc>64MiB")
	}
	if resp.CPUms > 500 {
		o.Label("cpu>0.5s")
	}
	return
}

// ---------------------------------------------------------------------------------------
// mutation programs

type segment struct{ off, size int } // marker offset and total size incl. marker and length

func segmentsOf(it *Item) (segs []segment, headerLen int) {
	switch it.Family {
	case "jpeg", "jpegls":
		j, err := walk.WalkJPEG(it.Data, it.Family == "jpegls")
		if err != nil {
			return nil, min(len(it.Data), 64)
		}
		for _, s := range j.Segs {
			if s.Payload != nil {
				segs = append(segs, segment{s.Off, len(s.Payload) + 4})
			}
		}
		if len(j.Scans) > 0 {
			headerLen = j.Scans[0].ECSOff
		}
	case "j2k":
		j, err := walk.WalkJ2K(it.Data)
		if err != nil {
			// truncated fixtures: the main header is still walkable by hand
			return nil, min(len(it.Data), 200)
		}
		for _, s := range j.Main {
			segs = append(segs, segment{s.Off, len(s.Payload) + 4})
		}
		for _, tp := range j.Parts {
			segs = append(segs, segment{tp.Off, 12})
		}
		headerLen = j.FirstSOT + 14
	case "rle":
		headerLen = 64
	}
	if headerLen == 0 || headerLen > len(it.Data) {
		headerLen = min(len(it.Data), 64)
	}
	return
}

// markerCodes lists the marker codes of a family (with minimal well-formed payloads where a
// parser needs them to go on).
func markerCodes(family string) [][]byte {
	switch family {
	case "j2k":
		out := [][]byte{{0xFF, 0x91, 0, 4, 0, 0}, {0xFF, 0x91}, {0xFF, 0x92}, {0xFF, 0x93}, {0xFF, 0x90, 0, 10, 0, 0, 0, 0, 0, 0, 0, 1}, {0xFF, 0xD9}, {0xFF, 0x4F}}
		for _, m := range []byte{0x51, 0x52, 0x53, 0x55, 0x57, 0x58, 0x5C, 0x5D, 0x5E, 0x5F, 0x60, 0x61, 0x63, 0x64, 0x50, 0x74, 0x75, 0x76, 0x77, 0x78} {
			out = append(out, []byte{0xFF, m}, []byte{0xFF, m, 0, 2}, []byte{0xFF, m, 0, 4, 0, 0})
		}
		return out
	case "jpeg", "jpegls":
		out := [][]byte{{0xFF, 0xD8}, {0xFF, 0xD9}, {0xFF, 0x01}}
		for m := 0xD0; m <= 0xD7; m++ {
			out = append(out, []byte{0xFF, byte(m)})
		}
		for _, m := range []byte{0xC0, 0xC1, 0xC2, 0xC3, 0xC4, 0xC8, 0xCC, 0xDA, 0xDB, 0xDC, 0xDD, 0xDE, 0xDF, 0xE0, 0xEE, 0xF7, 0xF8, 0xFE} {
			out = append(out, []byte{0xFF, m}, []byte{0xFF, m, 0, 2}, []byte{0xFF, m, 0, 4, 0, 1})
		}
		return out
	}
	return [][]byte{{0xFF, 0xD9}}
}

var hostile = []byte{0, 1, 2, 3, 4, 7, 8, 15, 16, 17, 31, 32, 63, 64, 0x7F, 0x80, 0x81, 0xC0, 0xD9, 0xFE, 0xFF}

func mutate(t *rapid.T, it *Item, data []byte) ([]byte, string) {
	segs, hdr := segmentsOf(it)
	kinds := []string{"trunc", "setbyte", "setbyte", "field", "field", "seglen", "seglen", "segop", "splice", "tail", "insert", "word", "pair", "pair"}
	if it.Family == "j2k" && len(segs) > 0 {
		kinds = append(kinds, "tilegrid", "tilegrid", "tilepart", "tilepart")
	}
	if len(segs) == 0 {
		kinds = []string{"trunc", "setbyte", "setbyte", "tail", "insert", "word", "splice"}
	}
	k := rapid.SampledFrom(kinds).Draw(t, "mut")
	out := append([]byte(nil), data...)
	if len(out) == 0 {
		return []byte{0xFF}, "empty"
	}
	pos := func(label string) int {
		if rapid.IntRange(0, 9).Draw(t, label+"hdr") < 7 && hdr > 0 {
			return rapid.IntRange(0, min(hdr, len(out))-1).Draw(t, label)
		}
		return rapid.IntRange(0, len(out)-1).Draw(t, label)
	}
	switch k {
	case "trunc":
		n := rapid.IntRange(0, len(out)-1).Draw(t, "n")
		return out[:n], fmt.Sprintf("trunc:%d", n)
	case "setbyte":
		p := pos("off")
		v := rapid.OneOf(rapid.SampledFrom(hostile), rapid.Byte()).Draw(t, "val")
		out[p] = v
		return out, fmt.Sprintf("setbyte:%d=%d", p, v)
	case "field":
		s := segs[rapid.IntRange(0, len(segs)-1).Draw(t, "seg")]
		i := s.off + 4 + rapid.IntRange(0, max(0, min(s.size-5, 40))).Draw(t, "idx")
		if i >= len(out) {
			i = len(out) - 1
		}
		cur := out[i]
		v := rapid.SampledFrom(append(append([]byte{}, hostile...), cur+1, cur-1, cur^0x10, cur^0x01, cur<<4|cur>>4)).Draw(t, "val")
		out[i] = v
		return out, fmt.Sprintf("field:%d=%d", i, v)
	case "pair":
		// Two header bytes that carry the same value (a component id in SOF and SOS, input and
		// output component lists of an MCC, table ids in DQT/DHT and their users, tile indices)
		// are changed to the same new value: the header stays self-consistent and the changed
		// value reaches the code behind the cross-check.
		s := segs[rapid.IntRange(0, len(segs)-1).Draw(t, "seg")]
		i := s.off + 4 + rapid.IntRange(0, max(0, min(s.size-5, 60))).Draw(t, "idx")
		if i >= len(out) {
			i = len(out) - 1
		}
		cur := out[i]
		var same []int
		for j := 0; j < min(len(out), max(hdr, 1)); j++ {
			if j != i && out[j] == cur {
				same = append(same, j)
			}
		}
		v := rapid.SampledFrom(append(append([]byte{}, hostile...), cur+1, cur-1, cur+2, cur^0x10, cur<<4|cur>>4)).Draw(t, "val")
		out[i] = v
		desc := fmt.Sprintf("pair:%d=%d", i, v)
		if len(same) > 0 {
			// prefer a partner close by (same or a neighbouring segment)
			near := same[:0:0]
			for _, j := range same {
				if j > i-64 && j < i+64 {
					near = append(near, j)
				}
			}
			if len(near) > 0 && rapid.IntRange(0, 3).Draw(t, "near") > 0 {
				same = near
			}
			j := rapid.SampledFrom(same).Draw(t, "partner")
			out[j] = v
			desc += fmt.Sprintf(",%d", j)
		}
		return out, desc
	case "seglen":
		s := segs[rapid.IntRange(0, len(segs)-1).Draw(t, "seg")]
		l := s.size - 2
		nl := rapid.SampledFrom([]int{0, 1, 2, 3, 4, l - 1, l + 1, l + 2, 0x7FFF, 0x8000, 0xFFFD, 0xFFFE, 0xFFFE, 0xFFFF, len(out), len(out) - s.off - 2}).Draw(t, "len")
		if s.off+3 < len(out) {
			out[s.off+2], out[s.off+3] = byte(nl>>8), byte(nl)
		}
		return out, fmt.Sprintf("seglen:%d=%d", s.off, nl)
	case "segop":
		a := segs[rapid.IntRange(0, len(segs)-1).Draw(t, "a")]
		b := segs[rapid.IntRange(0, len(segs)-1).Draw(t, "b")]
		if a.off+a.size > len(out) || b.off+b.size > len(out) {
			return out, "segop:none"
		}
		sa := append([]byte(nil), out[a.off:a.off+a.size]...)
		switch rapid.IntRange(0, 3).Draw(t, "op") {
		case 0: // delete a
			return append(append([]byte(nil), out[:a.off]...), out[a.off+a.size:]...), fmt.Sprintf("segop:del@%d", a.off)
		case 1: // duplicate a in front of b
			r := append(append([]byte(nil), out[:b.off]...), sa...)
			return append(r, out[b.off:]...), fmt.Sprintf("segop:dup@%d->%d", a.off, b.off)
		case 2: // move a directly behind the start marker
			r := append(append([]byte(nil), out[:2]...), sa...)
			r = append(r, out[2:a.off]...)
			return append(r, out[a.off+a.size:]...), fmt.Sprintf("segop:front@%d", a.off)
		default: // overwrite b's position with a's bytes
			copy(out[b.off:], sa)
			return out, fmt.Sprintf("segop:over@%d<-%d", b.off, a.off)
		}
	case "tilegrid":
		// Cooperating geometry edits: tile size / tile origin in SIZ together with tile index,
		// tile-part counters and length in SOT (a tile-part that lies outside the declared grid,
		// a tile far larger than the image, ...). Each field is changed with probability 1/2.
		desc := "tilegrid:"
		put32 := func(off int, v uint32) {
			if off+4 <= len(out) {
				out[off], out[off+1], out[off+2], out[off+3] = byte(v>>24), byte(v>>16), byte(v>>8), byte(v)
			}
		}
		sizes := []uint32{1, 2, 3, 7, 8, 64, 1 << 15, 1 << 16, 1 << 20, 1 << 23, 1 << 26, 1<<31 - 1, 1<<32 - 1}
		for i := 0; i+4 < len(out); i++ {
			if out[i] == 0xFF && out[i+1] == 0x51 { // SIZ: XTsiz at +22, YTsiz at +26, XTOsiz +30, YTOsiz +34 from the marker
				if rapid.Bool().Draw(t, "xt") {
					v := rapid.SampledFrom(sizes).Draw(t, "xtv")
					put32(i+22, v)
					desc += fmt.Sprintf(",XTsiz=%d", v)
				}
				if rapid.Bool().Draw(t, "yt") {
					v := rapid.SampledFrom(sizes).Draw(t, "ytv")
					put32(i+26, v)
					desc += fmt.Sprintf(",YTsiz=%d", v)
				}
				if rapid.IntRange(0, 3).Draw(t, "to") == 0 {
					v := rapid.SampledFrom([]uint32{1, 2, 8, 1 << 16}).Draw(t, "tov")
					put32(i+30, v)
					desc += fmt.Sprintf(",XTOsiz=%d", v)
				}
				break
			}
		}
		for i := 0; i+12 <= len(out); i++ {
			if out[i] == 0xFF && out[i+1] == 0x90 && out[i+2] == 0 && out[i+3] == 10 { // SOT
				if rapid.Bool().Draw(t, "isot") {
					v := rapid.SampledFrom([]int{1, 2, 3, 255, 256, 65534, 65535}).Draw(t, "isotv")
					out[i+4], out[i+5] = byte(v>>8), byte(v)
					desc += fmt.Sprintf(",Isot=%d", v)
				}
				if rapid.IntRange(0, 2).Draw(t, "tp") == 0 {
					out[i+10] = rapid.SampledFrom([]byte{1, 2, 255}).Draw(t, "tpsot")
					out[i+11] = rapid.SampledFrom([]byte{0, 1, 2, 255}).Draw(t, "tnsot")
					desc += ",TPsot/TNsot"
				}
				if rapid.IntRange(0, 2).Draw(t, "psot") == 0 {
					v := rapid.SampledFrom([]uint32{0, 12, 13, 14, 1 << 16, 1<<32 - 1}).Draw(t, "psotv")
					put32(i+6, v)
					desc += fmt.Sprintf(",Psot=%d", v)
				}
				if rapid.Bool().Draw(t, "firstonly") {
					break
				}
			}
		}
		return out, desc
	case "tilepart":
		// Cooperating edits of one tile-part: its length field (absent / too short / past the end,
		// which sends a parser to its marker-scanning fallback) together with marker codes placed
		// inside its body (SOP, EPH, SOT, SOD, EOC, main-header markers).
		desc := "tilepart:"
		sot := -1
		for i := 0; i+12 <= len(out); i++ {
			if out[i] == 0xFF && out[i+1] == 0x90 && out[i+2] == 0 && out[i+3] == 10 {
				sot = i
				if rapid.Bool().Draw(t, "firstsot") {
					break
				}
			}
		}
		if sot < 0 {
			return out, "tilepart:none"
		}
		sod := -1
		for i := sot + 12; i+1 < len(out); i++ {
			if out[i] == 0xFF && out[i+1] == 0x93 {
				sod = i
				break
			}
		}
		rest := len(out) - sot
		v := rapid.SampledFrom([]int{0, 0, 0, 1, 11, 12, 13, 14, rest - 1, rest, rest + 1, rest + 2, 1 << 16, 1<<31 - 1, -1}).Draw(t, "psot")
		if v >= 0 || rapid.Bool().Draw(t, "keep-psot") {
			u := uint32(v)
			out[sot+6], out[sot+7], out[sot+8], out[sot+9] = byte(u>>24), byte(u>>16), byte(u>>8), byte(u)
			desc += fmt.Sprintf("Psot=%d", u)
		}
		if sod >= 0 {
			n := rapid.IntRange(0, 2).Draw(t, "nmark")
			for k := 0; k < n; k++ {
				body := len(out) - (sod + 2)
				at := sod + 2
				if body > 0 {
					at += rapid.SampledFrom([]int{0, 0, 1, body / 2, max(0, body-2), body}).Draw(t, "at")
				}
				m := rapid.SampledFrom(markerCodes("j2k")).Draw(t, "marker")
				if rapid.Bool().Draw(t, "overwrite") && at+len(m) <= len(out) {
					copy(out[at:], m)
				} else {
					out = append(append(append([]byte(nil), out[:at]...), m...), out[at:]...)
				}
				desc += fmt.Sprintf(",%x@body+%d", m[:2], at-sod-2)
			}
		}
		return out, desc
	case "splice":
		other := pool[rapid.IntRange(0, len(pool)-1).Draw(t, "other")]
		p := rapid.IntRange(0, len(out)).Draw(t, "cut")
		q := rapid.IntRange(0, len(other.Data)).Draw(t, "cut2")
		return append(append([]byte(nil), out[:p]...), other.Data[q:]...), fmt.Sprintf("splice:%d+%s@%d", p, other.Name, q)
	case "tail":
		keep := len(out)
		if len(out) > 2 {
			keep = rapid.IntRange(2, min(len(out), max(2, hdr))).Draw(t, "keep")
		}
		tail := rapid.SliceOfN(rapid.OneOf(rapid.SampledFrom(hostile), rapid.Byte()), 0, 48).Draw(t, "tail")
		return append(append([]byte(nil), out[:keep]...), tail...), fmt.Sprintf("tail:%d+%d", keep, len(tail))
	case "insert":
		p := pos("at")
		ins := rapid.SampledFrom(append([][]byte{{0xFF, 0xD9}, {0xFF, 0xDA}, {0xFF, 0x00}, {0xFF, 0xFF}, {0xFF, 0x90}, {0xFF, 0x93}, {0xFF, 0xD0}, {0xFF, 0xC4, 0, 3, 0}, {0xFF, 0x51}, {0}, {0xFF}}, markerCodes(it.Family)...)).Draw(t, "ins")
		r := append(append([]byte(nil), out[:p]...), ins...)
		return append(r, out[p:]...), fmt.Sprintf("insert:%d:%x", p, ins)
	default: // word: overwrite a 16/32-bit big-endian field
		p := pos("at")
		v := rapid.SampledFrom([]uint32{0, 1, 2, 0xFF, 0x100, 0x7FFF, 0x8000, 0xFFFF, 0x10000, 0x7FFFFFFF, 0x80000000, 0xFFFFFFFF}).Draw(t, "w")
		if rapid.Bool().Draw(t, "w32") && p+4 <= len(out) {
			out[p], out[p+1], out[p+2], out[p+3] = byte(v>>24), byte(v>>16), byte(v>>8), byte(v)
			return out, fmt.Sprintf("word32:%d=%d", p, v)
		}
		if p+2 <= len(out) {
			out[p], out[p+1] = byte(v>>8), byte(v)
		}
		return out, fmt.Sprintf("word16:%d=%d", p, v&0xFFFF)
	}
}

func genInfo(t *rapid.T, it *Item, entry string) *dec.Info {
	if len(entry) < 6 || entry[:6] != "codec:" {
		return nil
	}
	inf := it.Info
	if entry == "codec:RLE" || rapid.IntRange(0, 4).Draw(t, "mutinfo") == 0 {
		// hostile frame descriptions; Rows*Cols*planes stays under 2^24 so that allocation size remains C09's question
		if rapid.Bool().Draw(t, "iw") {
			inf.W = rapid.SampledFrom([]int{0, 1, 2, inf.W, inf.W + 1, inf.W - 1, inf.W - 1, 255, 4096}).Draw(t, "w")
		}
		if rapid.Bool().Draw(t, "ih") {
			inf.H = rapid.SampledFrom([]int{0, 1, 2, inf.H, inf.H + 1, inf.H - 1, inf.H - 1, 255, 4096}).Draw(t, "h")
		}
		if rapid.Bool().Draw(t, "iba") {
			inf.BA = rapid.SampledFrom([]int{0, 1, 7, 8, 9, 16, 32, 64, 65535}).Draw(t, "ba")
			inf.BS = rapid.SampledFrom([]int{0, 1, inf.BA, 8, 16, 65535}).Draw(t, "bs")
		}
		if rapid.Bool().Draw(t, "ispp") {
			inf.SPP = rapid.SampledFrom([]int{0, 1, 3, 4, 65535}).Draw(t, "spp")
		}
		inf.Planar = rapid.SampledFrom([]int{0, 0, 1, 2}).Draw(t, "planar")
		// keep Rows*Cols*planes <= 2^24: what a codec allocates for an absurd description is C09's question
		planes := func() int { return max(1, (inf.BA+7)/8) * max(1, inf.SPP) }
		for inf.W*inf.H*planes() > 1<<24 {
			switch {
			case inf.H > 1:
				inf.H = (inf.H + 1) / 2
			case inf.W > 1:
				inf.W = (inf.W + 1) / 2
			case inf.SPP > 4:
				inf.SPP = 4
			default:
				inf.BA = 64
			}
		}
	}
	return &inf
}

func Gen(t *rapid.T) *Case {
	it := pool[rapid.IntRange(0, len(pool)-1).Draw(t, "item")]
	entry := it.Entries[rapid.IntRange(0, len(it.Entries)-1).Draw(t, "entry")]
	if rapid.IntRange(0, 11).Draw(t, "cross") == 0 {
		entry = dec.Entries[rapid.IntRange(0, len(dec.Entries)-1).Draw(t, "anyentry")]
	}
	c := &Case{Entry: entry, Parent: it.Name}
	data := it.Data
	n := rapid.SampledFrom([]int{1, 1, 1, 2, 2, 3}).Draw(t, "nmut")
	for i := 0; i < n; i++ {
		var d string
		data, d = mutate(t, it, data)
		c.Muts = append(c.Muts, d)
	}
	if len(data) > maxInput {
		data = data[:maxInput]
	}
	c.Input = data
	c.Info = genInfo(t, it, entry)
	return c
}

func TestRapid(t *testing.T)  { core.RunRapid(t, ID, Gen, Check) }
func TestReplay(t *testing.T) { core.RunReplay(t, ID, &Case{}, Check) }

// TestValid: every pool stream, unmodified, through each of its entry points (sanity of the pool
// and of the worker: a valid stream must not be rejected by its primary entry point).
func TestValid(t *testing.T) {
	for _, it := range pool {
		for k, e := range it.Entries {
			inf := it.Info
			c := &Case{Entry: e, Parent: it.Name, Input: it.Data, Info: &inf}
			if len(e) < 6 || e[:6] != "codec:" {
				c.Info = nil
			}
			resp, d := call(c)
			if d != nil {
				t.Fatalf("harness: worker died on valid stream %s via %s: %s", it.Name, e, d.Detail)
			}
			if k == 0 && resp.Err != "" && it.Name[:min(7, len(it.Name))] != "fixture" {
				t.Fatalf("harness: primary entry %s rejects valid pool stream %s: %s", e, it.Name, resp.Err)
			}
			core.Eval(t, ID, "quota", c, Check)
		}
	}
}

// TestTruncations enumerates the truncation of every pool stream at every offset (first 600
// offsets) for every entry point of the stream; sharded.
func TestTruncations(t *testing.T) {
	shard, shards := core.EnvInt("VERIF_SHARD", 0), max(1, core.EnvInt("VERIF_SHARDS", 1))
	n, total := 0, int64(0)
	for _, it := range pool {
		lim := min(len(it.Data), 600)
		for _, e := range it.Entries {
			for cut := 0; cut < lim; cut++ {
				n++
				if n%shards != shard {
					continue
				}
				inf := it.Info
				c := &Case{Entry: e, Parent: it.Name, Muts: []string{fmt.Sprintf("trunc:%d", cut)}, Input: it.Data[:cut], Info: &inf}
				if len(e) < 6 || e[:6] != "codec:" {
					c.Info = nil
				}
				o := Check(c)
				if o.Fail != nil {
					core.Eval(t, ID, "exhaustive", c, Check)
				}
				core.RecordLight(uint64(n)<<8|1, o.NonTrivial, "enum-truncation")
				total++
			}
		}
	}
	core.ExhaustiveDone("truncation of every pool stream at every offset < 600 for each of its entry points", int64(n))
}

// TestHeaderBytes enumerates single-byte corruption of every header byte of every pool stream
// with a value set (quick: 10 values, third-party fixtures skipped; thorough: all 256, fixtures 24), through the
// stream's primary entry point and its codec-level entry point; sharded.
func TestHeaderBytes(t *testing.T) {
	shard, shards := core.EnvInt("VERIF_SHARD", 0), max(1, core.EnvInt("VERIF_SHARDS", 1))
	n := 0
	names := make([]string, 0, len(pool))
	for _, it := range pool {
		names = append(names, it.Name)
	}
	sort.Strings(names)
	for _, name := range names {
		it := byName[name]
		_, hdr := segmentsOf(it)
		hdr = min(hdr, 300)
		entries := it.Entries[:1]
		for _, e := range it.Entries[1:] {
			if len(e) > 6 && e[:6] == "codec:" {
				entries = append(entries, e)
				break
			}
		}
		fixture := len(name) > 7 && name[:7] == "fixture"
		if fixture && !core.Thorough() {
			continue // 128x128 third-party streams cost 10-40 ms per decode: thorough tier only
		}
		for off := 0; off < hdr; off++ {
			var vals []byte
			cur := it.Data[off]
			switch {
			case core.Thorough() && !fixture:
				for v := 0; v < 256; v++ {
					vals = append(vals, byte(v))
				}
			case core.Thorough():
				vals = append(append([]byte{}, hostile...), cur+1, cur-1, cur^0x10)
			default:
				vals = []byte{0, 1, 0x7F, 0x80, 0xFF, cur + 1, cur - 1, cur ^ 0x10, cur ^ 0x01, cur<<4 | cur>>4}
			}
			for _, v := range vals {
				if v == it.Data[off] {
					continue
				}
				for _, e := range entries {
					n++
					if n%shards != shard {
						continue
					}
					in := append([]byte(nil), it.Data...)
					in[off] = v
					inf := it.Info
					c := &Case{Entry: e, Parent: it.Name, Muts: []string{fmt.Sprintf("setbyte:%d=%d", off, v)}, Input: in, Info: &inf}
					if len(e) < 6 || e[:6] != "codec:" {
						c.Info = nil
					}
					o := Check(c)
					if o.Fail != nil {
						core.Eval(t, ID, "exhaustive", c, Check)
					}
					core.RecordLight(uint64(n)<<8|2, o.NonTrivial, "enum-headerbyte")
				}
			}
		}
	}
	core.ExhaustiveDone("single-byte corruption of every header byte (first 300) of every pool stream with the value set of the tier", int64(n))
}

// TestRLEGrammar: RLE frames written from the PS3.5 Annex G grammar instead of mutated from an
// encoder's output: a 64-byte header (segment count and offsets: right, too few, too many,
// shuffled, overlapping, past the end) and per byte plane a token sequence of literal runs,
// replicate runs and no-ops whose decoded length is the plane size plus a drawn difference
// (-2 .. +2, far too long, empty), so that the last run of a segment ends exactly at, one short
// of, or one past the end of the output in every layout (8/16/32 bits allocated, 1/3 samples,
// colour-by-pixel / colour-by-plane, odd sizes).
func TestRLEGrammar(t *testing.T) {
	shard, shards := core.EnvInt("VERIF_SHARD", 0), max(1, core.EnvInt("VERIF_SHARDS", 1))
	seed := core.EnvInt("VERIF_SEED", 1)
	n := 6000
	if core.Thorough() {
		n = 200000
	}
	g := rapid.Custom(func(t *rapid.T) *Case {
		inf := dec.Info{W: rapid.IntRange(1, 7).Draw(t, "w"), H: rapid.IntRange(1, 5).Draw(t, "h"), BA: rapid.SampledFrom([]int{8, 8, 16, 16, 32}).Draw(t, "ba"),
			SPP: rapid.SampledFrom([]int{1, 3, 3}).Draw(t, "spp"), Planar: rapid.IntRange(0, 1).Draw(t, "planar")}
		inf.BS = inf.BA
		planes := inf.BA / 8 * inf.SPP
		px := inf.W * inf.H
		var segs [][]byte
		desc := ""
		for p := 0; p < planes; p++ {
			want := px + rapid.SampledFrom([]int{0, 0, 0, 0, 1, 1, -1, 2, -2, 5, 200, -px}).Draw(t, "delta")
			var seg []byte
			got := 0
			for got < want {
				left := want - got
				switch rapid.IntRange(0, 5).Draw(t, "tok") {
				case 0, 1, 2: // literal run of 1..128 bytes
					k := rapid.IntRange(1, min(128, left)).Draw(t, "lit")
					seg = append(seg, byte(k-1))
					for i := 0; i < k; i++ {
						seg = append(seg, byte(got+i*7+p))
					}
					got += k
				case 3, 4: // replicate run of 2..128 bytes
					k := rapid.IntRange(2, max(2, min(128, left))).Draw(t, "rep")
					seg = append(seg, byte(257-k), byte(got+p))
					got += k
				default: // no-op
					seg = append(seg, 0x80)
				}
			}
			switch rapid.IntRange(0, 7).Draw(t, "end") {
			case 0: // a run header without its data at the very end
				seg = append(seg, rapid.SampledFrom([]byte{0, 5, 127, 129, 255}).Draw(t, "dangling"))
			case 1:
				seg = append(seg, 0x80)
			}
			if len(seg)%2 == 1 {
				seg = append(seg, 0)
			}
			segs = append(segs, seg)
			desc += fmt.Sprintf("%+d,", want-px)
		}
		hdr := make([]byte, 64)
		count := len(segs)
		switch rapid.IntRange(0, 9).Draw(t, "count") {
		case 0:
			count = rapid.SampledFrom([]int{0, 1, len(segs) - 1, len(segs) + 1, 15, 16, 255, 1 << 24}).Draw(t, "countv")
		}
		put := func(off int, v uint32) { hdr[off], hdr[off+1], hdr[off+2], hdr[off+3] = byte(v), byte(v>>8), byte(v>>16), byte(v>>24) }
		put(0, uint32(count))
		off := 64
		var body []byte
		for i, sg := range segs {
			if i < 15 {
				put(4+4*i, uint32(off))
			}
			body = append(body, sg...)
			off += len(sg)
		}
		switch rapid.IntRange(0, 9).Draw(t, "offsets") {
		case 0: // one offset is wrong
			i := rapid.IntRange(0, min(14, len(segs))).Draw(t, "oi")
			put(4+4*i, rapid.SampledFrom([]uint32{0, 1, 63, 64, 65, uint32(off - 1), uint32(off), uint32(off + 1), 1 << 31, 1<<32 - 1}).Draw(t, "ov"))
			desc += "offset"
		case 1: // first two swapped
			if len(segs) >= 2 {
				a, b := append([]byte(nil), hdr[4:8]...), append([]byte(nil), hdr[8:12]...)
				copy(hdr[4:8], b)
				copy(hdr[8:12], a)
				desc += "swapped"
			}
		}
		in := append(hdr, body...)
		if rapid.IntRange(0, 7).Draw(t, "cut") == 0 {
			in = in[:rapid.IntRange(0, len(in)).Draw(t, "cutat")]
		}
		return &Case{Entry: "codec:RLE", Parent: "rle-grammar", Muts: []string{"grammar:" + desc}, Input: in, Info: &inf}
	})
	for i := 0; i < n; i++ {
		if i%shards != shard {
			continue
		}
		core.Eval(t, ID, "quota", g.Example(seed*1000003+i), Check)
	}
}

// TestHeaders: streams written from the header grammar alone - a frame header (and the tables a
// decoder wants to see) declaring a drawn geometry, followed by no or almost no entropy-coded
// data. Two purposes: (C09) a tiny input declaring up to 2^22 samples in every shape (1 x 2^22
// strips, 2048 x 2048, 65535 x 64), with every code-block / precinct / level / tile choice for
// JPEG 2000, must stay inside the declared-size budget; (C08) frame parameters no encoder of
// the library produces - sampling factors 1..4 per component in any order, component counts
// 1..4, odd sizes - reach the decoders' geometry code without a scan that fails first.
func TestHeaders(t *testing.T) {
	be16 := func(v int) []byte { return []byte{byte(v >> 8), byte(v)} }
	be32 := func(v int) []byte { return []byte{byte(v >> 24), byte(v >> 16), byte(v >> 8), byte(v)} }
	geom := rapid.Custom(func(t *rapid.T) [2]int {
		if rapid.IntRange(0, 2).Draw(t, "small") > 0 {
			return [2]int{rapid.IntRange(1, 48).Draw(t, "w"), rapid.IntRange(1, 48).Draw(t, "h")}
		}
		// (strips of one sample stop at 2^21 samples: with 4x4 code-blocks the library needs 4-6 s
		// for 2^22 on an idle machine, too close to the 10 s bound to be measured under load)
		g := rapid.SampledFrom([][2]int{{1, 1 << 19}, {1 << 19, 1}, {1, 1 << 21}, {1 << 21, 1}, {2048, 2048}, {65535, 32}, {32, 65535}, {1024, 1024}, {4096, 1000}, {300, 300}, {1 << 16, 16}}).Draw(t, "g")
		return g
	})
	g := rapid.Custom(func(t *rapid.T) *Case {
		d := geom.Draw(t, "geom")
		w, h := d[0], d[1]
		nc := rapid.SampledFrom([]int{1, 1, 3, 3, 2, 4}).Draw(t, "nc")
		for w*h*nc > 1<<22 {
			nc = 1
			if w*h > 1<<22 {
				h = max(1, h/2)
			}
		}
		var s []byte
		desc := fmt.Sprintf("%dx%dx%d", w, h, nc)
		if rapid.Bool().Draw(t, "j2k") {
			lv := rapid.SampledFrom([]int{0, 0, 1, 2, 5, 6}).Draw(t, "levels")
			cb := rapid.SampledFrom([][2]int{{10, 2}, {2, 10}, {6, 6}, {2, 2}, {4, 8}, {8, 4}, {5, 5}, {3, 9}}).Draw(t, "cb")
			tw, th := w, h
			if rapid.IntRange(0, 3).Draw(t, "tiled") == 0 {
				tw, th = max(1, min(w, rapid.SampledFrom([]int{64, 128, 1000, 4096}).Draw(t, "tw"))), max(1, min(h, rapid.SampledFrom([]int{64, 128, 1000, 4096}).Draw(t, "th")))
				for ((w+tw-1)/tw)*((h+th-1)/th) > 4096 { // at most 4096 tiles
					tw, th = min(w, tw*2), min(h, th*2)
				}
			}
			prec := rapid.IntRange(0, 2).Draw(t, "prec")
			for prec == 1 && w*h > 1<<20 {
				// Explicit small precincts: the library spends about a microsecond of CPU per declared
				// precinct on an idle machine (2.3 s for 2^22 samples in one column) and up to
				// fifteen times that under load (DESIGN, Corrections 10). Such headers are generated
				// up to 2^20 samples, which keeps the slowest legal input far from the time bound.
				if w > h {
					w /= 2
				} else {
					h /= 2
				}
				tw, th = min(tw, w), min(th, h)
			}
			desc = fmt.Sprintf("%dx%dx%d", w, h, nc)
			s = append(s, 0xFF, 0x4F, 0xFF, 0x51)
			s = append(s, be16(38+3*nc)...)
			s = append(s, 0, 0)
			s = append(append(append(append(s, be32(w)...), be32(h)...), be32(0)...), be32(0)...)
			s = append(append(append(append(s, be32(tw)...), be32(th)...), be32(0)...), be32(0)...)
			s = append(s, be16(nc)...)
			depth := rapid.SampledFrom([]int{7, 7, 11, 15, 0x87}).Draw(t, "ssiz")
			for i := 0; i < nc; i++ {
				s = append(s, byte(depth), 1, 1)
			}
			scod := 0
			var pp []byte
			if prec > 0 {
				scod = 1
				for r := 0; r <= lv; r++ {
					e := rapid.SampledFrom([]int{1, 2, 5, 7, 15}).Draw(t, "pp")
					if prec == 2 {
						e = 15
					}
					pp = append(pp, byte(e<<4|e))
				}
			}
			s = append(s, 0xFF, 0x52)
			s = append(s, be16(12+len(pp))...)
			s = append(s, byte(scod), byte(rapid.IntRange(0, 4).Draw(t, "prog")))
			s = append(s, be16(rapid.SampledFrom([]int{1, 1, 2, 20}).Draw(t, "layers"))...)
			s = append(s, byte(rapid.IntRange(0, 1).Draw(t, "mct")), byte(lv), byte(cb[0]-2), byte(cb[1]-2), 0, 1)
			s = append(s, pp...)
			s = append(s, 0xFF, 0x5C)
			s = append(s, be16(3+1+3*lv)...)
			s = append(s, 0x40)
			for i := 0; i < 1+3*lv; i++ {
				s = append(s, byte(rapid.SampledFrom([]int{8, 9, 10, 17}).Draw(t, "exp")<<3))
			}
			body := rapid.SampledFrom([][]byte{nil, {0}, {0x80}, {0xC7, 0x10, 0x20}, {0, 0, 0, 0, 0, 0, 0, 0}}).Draw(t, "body")
			s = append(s, 0xFF, 0x90, 0, 10, 0, 0)
			s = append(s, be32(14+len(body))...)
			s = append(s, 0, 1, 0xFF, 0x93)
			s = append(s, body...)
			s = append(s, 0xFF, 0xD9)
			desc += fmt.Sprintf(",j2k,L%d,cb%dx%d,tile%dx%d,prec%d,body%d", lv, cb[0], cb[1], tw, th, prec, len(body))
			entry := rapid.SampledFrom([]string{"j2k", "j2k", "j2k-parser", "j2k-ht", "codec:90", "codec:91", "codec:201"}).Draw(t, "entry")
			c := &Case{Entry: entry, Parent: "header-grammar", Muts: []string{"headers:" + desc}, Input: s}
			if len(entry) > 6 && entry[:6] == "codec:" {
				c.Info = &dec.Info{W: w & 0xFFFF, H: h & 0xFFFF, BA: 8, BS: 8, SPP: nc}
			}
			return c
		}
		// JPEG family: SOI, tables, SOFn, optional scan header, EOI
		if w > 65535 {
			w = 65535
		}
		if h > 65535 {
			h = 65535
		}
		sof := rapid.SampledFrom([]int{0xC0, 0xC0, 0xC1, 0xC3, 0xF7}).Draw(t, "sof")
		prec := rapid.SampledFrom([]int{8, 8, 12, 16}).Draw(t, "P")
		if sof == 0xC0 {
			prec = 8
		}
		s = append(s, 0xFF, 0xD8)
		if sof == 0xC0 || sof == 0xC1 {
			for tq := 0; tq < 2; tq++ {
				s = append(s, 0xFF, 0xDB, 0, 67, byte(tq))
				for i := 0; i < 64; i++ {
					s = append(s, byte(1+i%7))
				}
			}
		}
		if sof != 0xF7 {
			for _, th := range []byte{0x00, 0x10, 0x01, 0x11} {
				s = append(s, 0xFF, 0xC4, 0, 21, th, 0, 2, 0, 0, 0, 0, 0, 0, 0, 0, 0, 0, 0, 0, 0, 0, 0, 1)
			}
		}
		s = append(s, 0xFF, byte(sof))
		s = append(s, be16(8+3*nc)...)
		s = append(s, byte(prec))
		s = append(append(s, be16(h)...), be16(w)...)
		s = append(s, byte(nc))
		hv := ""
		for i := 0; i < nc; i++ {
			hs, vs := rapid.SampledFrom([]int{1, 1, 2, 2, 3, 4}).Draw(t, "hs"), rapid.SampledFrom([]int{1, 1, 2, 2, 3, 4}).Draw(t, "vs")
			s = append(s, byte(i+1), byte(hs<<4|vs), byte(min(i, 1)))
			hv += fmt.Sprintf("%d%d", hs, vs)
		}
		if rapid.Bool().Draw(t, "sos") {
			s = append(s, 0xFF, 0xDA)
			s = append(s, be16(6+2*nc)...)
			s = append(s, byte(nc))
			for i := 0; i < nc; i++ {
				s = append(s, byte(i+1), byte(min(i, 1)*0x11))
			}
			if sof == 0xC3 {
				s = append(s, 1, 0, 0)
			} else if sof == 0xF7 {
				s = append(s, 0, byte(min(nc-1, 1)*2), 0)
			} else {
				s = append(s, 0, 63, 0)
			}
			// entropy-coded data: nothing, a few bytes, or long stretches of 1 bits / 0 bits in the
			// family's stuffing convention (JPEG-LS run mode climbs its run index on 1 bits;
			// Huffman decoders meet their longest codes)
			ecs := rapid.SampledFrom([][]byte{nil, {0}, {0xAA, 0x55}, {0xFF, 0x00, 0x12}, {0xFF, 0x7F}, {0xFF, 0x00}, {0x00}}).Draw(t, "ecs")
			rep := rapid.SampledFrom([]int{1, 1, 4, 8, 40, 300}).Draw(t, "ecsrep")
			for k := 0; k < rep; k++ {
				s = append(s, ecs...)
			}
			desc += fmt.Sprintf(",ecs%xx%d", ecs, rep)
		}
		s = append(s, 0xFF, 0xD9)
		desc += fmt.Sprintf(",sof%X,P%d,hv%s", sof, prec, hv)
		entries := map[int][]string{0xC0: {"baseline", "extended", "codec:50"}, 0xC1: {"extended", "baseline", "codec:51"}, 0xC3: {"lossless", "sv1", "codec:57", "codec:70"}, 0xF7: {"jpegls", "jpegls-near", "codec:80", "codec:81"}}[sof]
		entry := rapid.SampledFrom(entries).Draw(t, "entry")
		c := &Case{Entry: entry, Parent: "header-grammar", Muts: []string{"headers:" + desc}, Input: s}
		if len(entry) > 6 && entry[:6] == "codec:" {
			c.Info = &dec.Info{W: w, H: h, BA: (prec + 7) / 8 * 8, BS: prec, SPP: nc}
		}
		return c
	})
	core.RunSharded(t, ID, 480, 20000, g, Check)
}

// TestPairBytes enumerates cooperating two-byte corruptions of every pool stream's header: a
// header byte and another byte of the header that carries the same value (its nearest partners)
// are set to the same new value. Identifiers that a header repeats - component ids in SOF and
// SOS, input and output component lists of an MCC, table ids and their users, tile indices -
// stay consistent that way, so the changed value passes the cross-checks and reaches the code
// behind them. (Third-party fixtures are left out: the single-byte sweep covers them in the
// thorough tier.)
func TestPairBytes(t *testing.T) {
	shard, shards := core.EnvInt("VERIF_SHARD", 0), max(1, core.EnvInt("VERIF_SHARDS", 1))
	n := 0
	names := make([]string, 0, len(pool))
	for _, it := range pool {
		names = append(names, it.Name)
	}
	sort.Strings(names)
	partners := 2
	if core.Thorough() {
		partners = 8
	}
	for _, name := range names {
		it := byName[name]
		if len(name) > 7 && name[:7] == "fixture" {
			continue
		}
		_, hdr := segmentsOf(it)
		hdr = min(hdr, 300, len(it.Data))
		e := it.Entries[0]
		for off := 0; off < hdr; off++ {
			cur := it.Data[off]
			if cur == 0xFF {
				continue // marker prefixes
			}
			// nearest partners with the same value
			var ps []int
			for d := 1; d < hdr && len(ps) < partners; d++ {
				for _, j := range []int{off + d, off - d} {
					if j >= 0 && j < hdr && it.Data[j] == cur && len(ps) < partners {
						ps = append(ps, j)
					}
				}
			}
			vals := []byte{cur + 1, cur + 2, 0x7F}
			if core.Thorough() {
				vals = []byte{cur + 1, cur + 2, cur - 1, 0x7F, 0x80, 0xFE, cur ^ 0x10, cur<<4 | cur>>4}
			}
			for _, j := range ps {
				if j < off {
					continue // each unordered pair once
				}
				for _, v := range vals {
					if v == cur {
						continue
					}
					n++
					if n%shards != shard {
						continue
					}
					in := append([]byte(nil), it.Data...)
					in[off], in[j] = v, v
					if s, found := preparse.Declared(in); found && s > 1<<20 {
						// two zero bytes of a size field: a huge declared image costs seconds per
						// decode and is what the other generators cover; this sweep is about identifiers
						core.Count("pairbytes_skipped_large_declared", 1)
						continue
					}
					inf := it.Info
					c := &Case{Entry: e, Parent: it.Name, Muts: []string{fmt.Sprintf("pair:%d,%d=%d", off, j, v)}, Input: in, Info: &inf}
					if len(e) < 6 || e[:6] != "codec:" {
						c.Info = nil
					}
					o := Check(c)
					if o.Fail != nil {
						core.Eval(t, ID, "exhaustive", c, Check)
					}
					core.RecordLight(uint64(n)<<8|3, o.NonTrivial, "enum-pairbytes")
				}
			}
		}
	}
	core.ExhaustiveDone("two header bytes of equal value (a byte and its nearest equal partners within the first 300 bytes) set to the same new value, for every pool stream", int64(n))
}

// TestJ2KFields enumerates the semantic range of every field of the COD and QCD segments of
// each JPEG 2000 pool stream, one field at a time: Scod 0..7, progression 0..5 and 255, layers,
// multiple-component transform 0..2, levels 0..7 and 32/33, code-block exponents 0..15, all
// 128 code-block style bytes (the six classic style bits and the HT bit), transform 0..2,
// precinct bytes, Sqcd styles and guard bits, and each step-size exponent.
func TestJ2KFields(t *testing.T) {
	shard, shards := core.EnvInt("VERIF_SHARD", 0), max(1, core.EnvInt("VERIF_SHARDS", 1))
	n := 0
	names := make([]string, 0, len(pool))
	for _, it := range pool {
		names = append(names, it.Name)
	}
	sort.Strings(names)
	rng := func(a, b int) []int {
		var v []int
		for i := a; i <= b; i++ {
			v = append(v, i)
		}
		return v
	}
	for _, name := range names {
		it := byName[name]
		if it.Family != "j2k" || (len(name) > 7 && name[:7] == "fixture" && !core.Thorough()) {
			continue
		}
		d := it.Data
		type edit struct {
			off  int
			vals []int
			what string
		}
		var edits []edit
		for i := 0; i+12 < len(d) && i < 600; i++ {
			if d[i] != 0xFF {
				continue
			}
			switch d[i+1] {
			case 0x52: // COD: Lcod(2) Scod prog layers(2) mct levels xcb ycb style transform [precincts]
				l := int(d[i+2])<<8 | int(d[i+3])
				edits = append(edits, edit{i + 4, rng(0, 7), "Scod"}, edit{i + 5, append(rng(0, 5), 255), "prog"}, edit{i + 6, []int{0, 1, 255}, "layersHi"}, edit{i + 7, []int{0, 1, 2, 3, 255}, "layersLo"},
					edit{i + 8, rng(0, 2), "mct"}, edit{i + 9, append(rng(0, 7), 32, 33), "levels"}, edit{i + 10, rng(0, 15), "xcb"}, edit{i + 11, rng(0, 15), "ycb"},
					edit{i + 12, rng(0, 127), "style"}, edit{i + 13, rng(0, 2), "transform"})
				for k := 14; k < 2+l && i+k < len(d) && k < 22; k++ {
					edits = append(edits, edit{i + k, []int{0x00, 0x01, 0x10, 0x11, 0x22, 0x5F, 0xF5, 0xFF}, "precinct"})
				}
			case 0x5C: // QCD: Lqcd(2) Sqcd SPqcd...
				l := int(d[i+2])<<8 | int(d[i+3])
				sq := []int{}
				for g := 0; g < 8; g++ {
					for st := 0; st < 4; st++ {
						sq = append(sq, g<<5|st)
					}
				}
				edits = append(edits, edit{i + 4, sq, "Sqcd"})
				for k := 5; k < 2+l && i+k < len(d) && k < 5+12; k++ {
					edits = append(edits, edit{i + k, []int{0, 8, 0x40, 0x88, 0xF8, 0xFF}, "SPqcd"})
				}
			}
		}
		entries := it.Entries[:1]
		if len(it.Entries) > 1 {
			entries = it.Entries[:2]
		}
		for _, ed := range edits {
			for _, v := range ed.vals {
				if ed.off >= len(d) || int(d[ed.off]) == v {
					continue
				}
				for _, e := range entries {
					n++
					if n%shards != shard {
						continue
					}
					in := append([]byte(nil), d...)
					in[ed.off] = byte(v)
					inf := it.Info
					c := &Case{Entry: e, Parent: it.Name, Muts: []string{fmt.Sprintf("j2kfield:%s@%d=%d", ed.what, ed.off, v)}, Input: in, Info: &inf}
					if len(e) < 6 || e[:6] != "codec:" {
						c.Info = nil
					}
					o := Check(c)
					if o.Fail != nil {
						core.Eval(t, ID, "exhaustive", c, Check)
					}
					core.RecordLight(uint64(n)<<8|4, o.NonTrivial, "enum-j2kfield")
				}
			}
		}
	}
	core.ExhaustiveDone("every COD / QCD field of every JPEG 2000 pool stream over its semantic range, one field at a time (all 128 code-block style bytes)", int64(n))
}

// TestTilePartHeaders inserts every kind of marker segment that may appear in a tile-part
// header (COD, COC, QCD, QCC, RGN, POC, PLT, PPT, COM) into each tile-part header of each
// JPEG 2000 pool stream, with and without the tile-part length adjusted. The library's encoders
// never write tile-part header segments, so the merge code for them (first tile-part without,
// later tile-part with a segment; repeated segments) is reached only this way.
func TestTilePartHeaders(t *testing.T) {
	shard, shards := core.EnvInt("VERIF_SHARD", 0), max(1, core.EnvInt("VERIF_SHARDS", 1))
	n := 0
	names := make([]string, 0, len(pool))
	for _, it := range pool {
		names = append(names, it.Name)
	}
	sort.Strings(names)
	for _, name := range names {
		it := byName[name]
		if it.Family != "j2k" {
			continue
		}
		j, err := walk.WalkJ2K(it.Data)
		if err != nil || len(j.Parts) == 0 {
			continue
		}
		var cod, qcd []byte
		for _, s := range j.Main {
			switch s.Marker {
			case 0xFF52:
				cod = s.Payload
			case 0xFF5C:
				qcd = s.Payload
			}
		}
		if len(cod) < 10 || len(qcd) < 2 {
			continue
		}
		seg := func(m byte, p []byte) []byte {
			l := len(p) + 2
			return append([]byte{0xFF, m, byte(l >> 8), byte(l)}, p...)
		}
		kinds := []struct {
			name string
			b    []byte
		}{
			{"COD", seg(0x52, cod)}, {"COC", seg(0x53, append([]byte{0, 0}, cod[5:10]...))}, {"QCD", seg(0x5C, qcd)}, {"QCC", seg(0x5D, append([]byte{0}, qcd...))},
			{"QCC1", seg(0x5D, append([]byte{byte(max(0, j.Csiz-1))}, qcd...))}, {"RGN", seg(0x5E, []byte{0, 0, 3})}, {"POC", seg(0x5F, []byte{0, 0, 0, 1, 1, 1, 0})},
			{"PLT", seg(0x58, []byte{0, 1})}, {"PPT", seg(0x61, []byte{0, 0})}, {"COM", seg(0x64, []byte{0, 1, 'x'})},
		}
		entries := it.Entries[:min(2, len(it.Entries))]
		for pi, tp := range j.Parts {
			if pi >= 6 {
				break
			}
			at := tp.Off + 12
			if at > len(it.Data) {
				continue
			}
			for _, k := range kinds {
				for fix := 0; fix < 2; fix++ {
					for _, e := range entries {
						n++
						if n%shards != shard {
							continue
						}
						in := append(append(append([]byte(nil), it.Data[:at]...), k.b...), it.Data[at:]...)
						if fix == 1 && tp.Psot != 0 {
							v := uint32(tp.Psot + len(k.b))
							in[tp.Off+6], in[tp.Off+7], in[tp.Off+8], in[tp.Off+9] = byte(v>>24), byte(v>>16), byte(v>>8), byte(v)
						}
						inf := it.Info
						c := &Case{Entry: e, Parent: it.Name, Muts: []string{fmt.Sprintf("tphdr:%s@part%d,psot%d", k.name, pi, fix)}, Input: in, Info: &inf}
						if len(e) < 6 || e[:6] != "codec:" {
							c.Info = nil
						}
						o := Check(c)
						if o.Fail != nil {
							core.Eval(t, ID, "exhaustive", c, Check)
						}
						core.RecordLight(uint64(n)<<8|5, o.NonTrivial, "enum-tilepart-header")
					}
				}
			}
		}
	}
	core.ExhaustiveDone("each tile-part header segment kind (COD COC QCD QCC RGN POC PLT PPT COM) inserted into each tile-part header of each JPEG 2000 pool stream, with and without Psot adjusted", int64(n))
}

// TestPacketGrammar: JPEG 2000 codestreams written from the header grammar whose single tile
// consists of one syntactically valid packet header (ref/walk.WritePacketHeader) with hostile
// field values - any pass count, Lblock raised by up to 70, lengths of all ones - followed by a
// few bytes of data. "Few blocks, absurd lengths" aims at the arithmetic on announced lengths;
// "thousands of blocks, each announcing 64 KiB" at what a decoder reserves before it looks at
// how much data is there.
func TestPacketGrammar(t *testing.T) {
	be16 := func(v int) []byte { return []byte{byte(v >> 8), byte(v)} }
	be32 := func(v int) []byte { return []byte{byte(v >> 24), byte(v >> 16), byte(v >> 8), byte(v)} }
	g := rapid.Custom(func(t *rapid.T) *Case {
		shape := rapid.SampledFrom([]string{"few", "few", "few", "many"}).Draw(t, "shape")
		w, h, xcb, ycb := 8, 8, 2, 2
		if shape == "many" {
			d := rapid.SampledFrom([][2]int{{256, 256}, {512, 384}, {128, 64}}).Draw(t, "dims")
			w, h = d[0], d[1]
		} else {
			w, h = rapid.IntRange(1, 16).Draw(t, "w"), rapid.IntRange(1, 16).Draw(t, "h")
			xcb, ycb = rapid.IntRange(2, 4).Draw(t, "xcb"), rapid.IntRange(2, 4).Draw(t, "ycb")
		}
		nx, ny := (w+(1<<xcb)-1)>>xcb, (h+(1<<ycb)-1)>>ycb
		style := rapid.SampledFrom([]int{0, 0, 4, 1, 5, 8, 0x40}).Draw(t, "style")
		blocks := make([]walk.PacketBlock, nx*ny)
		if shape == "many" {
			inc := rapid.SampledFrom([]int{13, 13, 12, 29}).Draw(t, "inc")
			passes := rapid.SampledFrom([]int{1, 1, 2, 3}).Draw(t, "passes")
			for i := range blocks {
				blocks[i] = walk.PacketBlock{Included: true, ZBP: 0, Passes: passes, LblockInc: inc, Len: ^uint64(0)}
			}
		} else {
			for i := range blocks {
				blocks[i] = walk.PacketBlock{Included: rapid.IntRange(0, 5).Draw(t, "incl") > 0, ZBP: rapid.SampledFrom([]int{0, 0, 1, 7, 30, 70}).Draw(t, "zbp"),
					Passes:    rapid.SampledFrom([]int{1, 1, 2, 3, 5, 6, 36, 37, 164}).Draw(t, "passes"),
					LblockInc: rapid.SampledFrom([]int{0, 0, 1, 5, 13, 29, 30, 50, 53, 58, 60, 61, 70}).Draw(t, "lbinc")}
				if rapid.Bool().Draw(t, "ones") {
					blocks[i].Len = ^uint64(0)
				} else {
					blocks[i].Len = rapid.Uint64().Draw(t, "len")
				}
			}
		}
		hdr := walk.WritePacketHeader(nx, ny, blocks)
		body := append(hdr, rapid.SliceOfN(rapid.Byte(), 0, 24).Draw(t, "data")...)
		nc := 1
		var s []byte
		s = append(s, 0xFF, 0x4F, 0xFF, 0x51)
		s = append(s, be16(38+3*nc)...)
		s = append(s, 0, 0)
		s = append(append(append(append(s, be32(w)...), be32(h)...), be32(0)...), be32(0)...)
		s = append(append(append(append(s, be32(w)...), be32(h)...), be32(0)...), be32(0)...)
		s = append(s, be16(nc)...)
		s = append(s, 7, 1, 1)
		s = append(s, 0xFF, 0x52, 0, 12, 0, 0, 0, 1, 0, 0, byte(xcb-2), byte(ycb-2), byte(style), 1)
		s = append(s, 0xFF, 0x5C, 0, 4, 0x40, 0x48)
		s = append(s, 0xFF, 0x90, 0, 10, 0, 0)
		s = append(s, be32(14+len(body))...)
		s = append(s, 0, 1, 0xFF, 0x93)
		s = append(s, body...)
		s = append(s, 0xFF, 0xD9)
		if len(s) > maxInput {
			s = s[:maxInput]
		}
		entry := rapid.SampledFrom([]string{"j2k", "j2k", "codec:90", "j2k-ht"}).Draw(t, "entry")
		c := &Case{Entry: entry, Parent: "packet-grammar", Muts: []string{fmt.Sprintf("packets:%s,%dx%d,cb%dx%d,style%d,%dB", shape, w, h, xcb, ycb, style, len(hdr))}, Input: s}
		if entry == "codec:90" {
			c.Info = &dec.Info{W: w, H: h, BA: 8, BS: 8, SPP: 1}
		}
		return c
	})
	core.RunSharded(t, ID, 320, 12000, g, Check)
}

// TestHTBlockTails: the end of an HT clean-up segment holds the Scup field (last byte and the low
// nibble of the one before) and, in front of it, the ends of the MEL and VLC streams growing
// towards each other. For the single-block HTJ2K pool streams every value of the last two bytes
// of the code-block is enumerated, with the bytes in front of them left alone, set to FF FF
// (a MEL stream of all-ones: the longest runs, the highest MEL state) or to 00 00.
func TestHTBlockTails(t *testing.T) {
	shard, shards := core.EnvInt("VERIF_SHARD", 0), max(1, core.EnvInt("VERIF_SHARDS", 1))
	n := 0
	for _, name := range []string{"htj2k-block32", "htj2k-block64"} {
		if name == "htj2k-block64" && !core.Thorough() {
			continue // quick: the 32x32 block (the smallest whose MEL stream reaches the last state)
		}
		it := byName[name]
		if it == nil {
			panic("harness: pool stream " + name + " missing")
		}
		end := len(it.Data) - 2 // in front of EOC
		if end < 8 || it.Data[end] != 0xFF || it.Data[end+1] != 0xD9 {
			panic("harness: " + name + " does not end in EOC")
		}
		step := 1
		for pre := 0; pre < 5; pre++ {
			if !core.Thorough() && (pre == 2 || pre == 4) {
				continue
			}
			for v := 0; v < 65536; v += step {
				n++
				if n%shards != shard {
					continue
				}
				in := append([]byte(nil), it.Data...)
				switch pre {
				case 1:
					in[end-4], in[end-3] = 0xFF, 0xFF
				case 2:
					in[end-4], in[end-3] = 0, 0
				case 3:
					for k := 3; k <= 10 && end-k > 0; k++ {
						in[end-k] = 0xFF
					}
				case 4:
					in[end-4], in[end-3] = 0x7F, 0xFF
				}
				in[end-2], in[end-1] = byte(v>>8), byte(v)
				inf := it.Info
				e := it.Entries[(n/shards)%2]
				c := &Case{Entry: e, Parent: it.Name, Muts: []string{fmt.Sprintf("httail:%d:%04x", pre, v)}, Input: in}
				if e == "codec:201" {
					c.Info = &inf
				}
				o := Check(c)
				if o.Fail != nil {
					core.Eval(t, ID, "exhaustive", c, Check)
				}
				core.RecordLight(uint64(n)<<8|9, o.NonTrivial, "enum-httail")
			}
		}
	}
	core.ExhaustiveDone("all 65536 values of the last two bytes of a single HT code-block (quick: 32x32, 3 settings of the bytes in front; thorough: 32x32 and 64x64, 5 settings)", int64(n))
}

// TestSegmentInsert: a well-formed marker segment the stream did not have, inserted at every
// segment boundary of the header of every JPEG / JPEG-LS pool stream: restart intervals of 1, 2,
// 3, width-1, width, width+1, one MCU row +-1 and 65535 (DRI), a line count (DNL), comments and
// application segments, an empty table segment - each through every entry point of the stream.
// (A decoder that starts honouring DRI divides by it, counts with it and loops on it.)
func TestSegmentInsert(t *testing.T) {
	shard, shards := core.EnvInt("VERIF_SHARD", 0), max(1, core.EnvInt("VERIF_SHARDS", 1))
	n := 0
	names := make([]string, 0, len(pool))
	for _, it := range pool {
		names = append(names, it.Name)
	}
	sort.Strings(names)
	for _, name := range names {
		it := byName[name]
		if it.Family != "jpeg" && it.Family != "jpegls" {
			continue
		}
		segs, _ := segmentsOf(it)
		if len(segs) == 0 {
			continue
		}
		w := it.Info.W
		var ins [][]byte
		for _, ri := range []int{1, 2, 3, w - 1, w, w + 1, (w + 7) / 8, (w+7)/8 + 1, (w + 15) / 16, 2 * w, w * it.Info.H, 255, 256, 65535} {
			if ri >= 0 && ri <= 65535 {
				ins = append(ins, []byte{0xFF, 0xDD, 0, 4, byte(ri >> 8), byte(ri)})
			}
		}
		ins = append(ins, []byte{0xFF, 0xDC, 0, 4, 0, 1}, []byte{0xFF, 0xDC, 0, 4, 0xFF, 0xFF}, []byte{0xFF, 0xFE, 0, 2}, []byte{0xFF, 0xFE, 0, 5, 'a', 'b', 'c'},
			[]byte{0xFF, 0xE0, 0, 2}, []byte{0xFF, 0xEE, 0, 14, 'A', 'd', 'o', 'b', 'e', 0, 100, 0, 0, 0, 0, 1}, []byte{0xFF, 0xC4, 0, 2}, []byte{0xFF, 0xDB, 0, 2},
			[]byte{0xFF, 0xF8, 0, 13, 1, 0, 255, 0, 3, 0, 7, 0, 21, 0, 64}, []byte{0xFF, 0xF8, 0, 4, 2, 0})
		at := []int{2}
		for _, s := range segs {
			at = append(at, s.off+s.size)
		}
		for _, p := range at {
			if p > len(it.Data) {
				continue
			}
			for _, b := range ins {
				for _, e := range it.Entries {
					n++
					if n%shards != shard {
						continue
					}
					in := append(append(append([]byte(nil), it.Data[:p]...), b...), it.Data[p:]...)
					inf := it.Info
					c := &Case{Entry: e, Parent: it.Name, Muts: []string{fmt.Sprintf("insertseg:%d:%x", p, b)}, Input: in, Info: &inf}
					if len(e) < 6 || e[:6] != "codec:" {
						c.Info = nil
					}
					o := Check(c)
					if o.Fail != nil {
						core.Eval(t, ID, "exhaustive", c, Check)
					}
					core.RecordLight(uint64(n)<<8|10, o.NonTrivial, "enum-insertseg")
				}
			}
		}
	}
	core.ExhaustiveDone("a DRI / DNL / COM / APPn / empty table / LSE segment inserted at every header segment boundary of every JPEG and JPEG-LS pool stream, every entry point", int64(n))
}
