package c0809

import (
	"bufio"
	"bytes"
	"encoding/binary"
	"encoding/json"
	"fmt"
	"io"
	"os"
	"os/exec"
	"path/filepath"
	"strings"
	"sync"
	"time"

	"verif/harness/dec"
)

// Worker is a client of one decworker child.
type Worker struct {
	cmd    *exec.Cmd
	in     io.WriteCloser
	out    *bufio.Reader
	stderr *bytes.Buffer
	mu     sync.Mutex
}

func workerPath() string {
	if b := os.Getenv("VERIF_BUILD"); b != "" {
		return filepath.Join(b, "decworker")
	}
	return "/verif/.build/decworker"
}

// AddressSpaceKiB is the kill switch of the worker (RLIMIT_AS), 6 GiB.
const AddressSpaceKiB = 6 * 1024 * 1024

func StartWorker() (*Worker, error) {
	w := &Worker{stderr: &bytes.Buffer{}}
	w.cmd = exec.Command("/bin/sh", "-c", fmt.Sprintf("ulimit -v %d; ulimit -c 0; exec %s", AddressSpaceKiB, workerPath()))
	w.cmd.Env = append(os.Environ(), "GOTRACEBACK=single", "GOMAXPROCS=2")
	w.cmd.Stderr = w.stderr
	in, err := w.cmd.StdinPipe()
	if err != nil {
		return nil, err
	}
	out, err := w.cmd.StdoutPipe()
	if err != nil {
		return nil, err
	}
	w.in, w.out = in, bufio.NewReader(out)
	if err := w.cmd.Start(); err != nil {
		return nil, err
	}
	return w, nil
}

func (w *Worker) Kill() {
	if w.cmd != nil && w.cmd.Process != nil {
		_ = w.cmd.Process.Kill()
		_, _ = w.cmd.Process.Wait()
	}
}

// Death describes why a worker did not answer.
type Death struct {
	Kind   string  // timeout | oom | stack-overflow | abort
	CPU    float64 // user CPU seconds the decode thread spent on the call (timeout only; -1 unknown)
	Detail string
}

// WatchdogSeconds is the wall-clock limit after which a silent worker is killed.
const WatchdogSeconds = 120

// Call runs one decode in the worker. If the worker dies or hangs, the returned Death is
// non-nil and the worker must be replaced.
func (w *Worker) Call(entry string, data []byte, info *dec.Info) (*dec.Response, *Death) {
	w.mu.Lock()
	defer w.mu.Unlock()
	if err := dec.WriteRequest(w.in, entry, data, info); err != nil {
		return nil, w.death("abort", "write: "+err.Error())
	}
	type rr struct {
		b   []byte
		err error
	}
	ch := make(chan rr, 1)
	go func() {
		var l [4]byte
		if _, err := io.ReadFull(w.out, l[:]); err != nil {
			ch <- rr{nil, err}
			return
		}
		b := make([]byte, binary.LittleEndian.Uint32(l[:]))
		_, err := io.ReadFull(w.out, b)
		ch <- rr{b, err}
	}()
	select {
	case r := <-ch:
		if r.err != nil {
			return nil, w.death("abort", "read: "+r.err.Error())
		}
		var resp dec.Response
		if err := json.Unmarshal(r.b, &resp); err != nil {
			return nil, w.death("abort", "bad response")
		}
		if resp.Hung {
			d := w.death("timeout", fmt.Sprintf("the decode had not returned after %d ms", resp.WallMs))
			d.CPU = float64(resp.CPUms) / 1000
			return nil, d
		}
		return &resp, nil
	case <-time.After(WatchdogSeconds * time.Second):
		// the worker reports a hang itself after 75 s together with the decode thread's user
		// CPU time; getting here means the whole process was starved or stopped, which
		// carries no information about the decoder
		d := w.death("timeout", fmt.Sprintf("no answer within %d s", WatchdogSeconds))
		d.CPU = -1
		return nil, d
	}
}

func (w *Worker) death(kind, detail string) *Death {
	w.Kill()
	se := w.stderr.String()
	switch {
	case strings.Contains(se, "out of memory") || strings.Contains(se, "cannot allocate memory"):
		kind = "oom"
	case strings.Contains(se, "stack overflow") || strings.Contains(se, "stack exceeds"):
		kind = "stack-overflow"
	}
	if len(se) > 1500 {
		se = se[:1500]
	}
	return &Death{Kind: kind, Detail: detail + " | stderr: " + se}
}
