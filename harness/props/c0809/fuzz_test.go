package c0809

import (
	"testing"

	"verif/harness/core"
	"verif/harness/dec"
	"verif/harness/ref/preparse"
)

// FuzzDecode is the coverage-guided extra of C08's thorough tier (native Go fuzzing; not
// seedable, bounded by -fuzztime). The decode runs in-process: the fuzz engine supplies its own
// worker processes and reports hangs / aborts itself. A recovered panic is recorded through
// core.Eval (fail.json, known-findings filter) before the target fails.
func FuzzDecode(f *testing.F) {
	for _, it := range pool {
		for k, e := range it.Entries {
			for i, name := range dec.Entries {
				if name == e && k < 2 {
					f.Add(byte(i), it.Data)
				}
			}
		}
	}
	f.Add(byte(0), []byte{0xFF, 0xD8, 0xFF, 0xDA, 0x00, 0x06, 0x00, 0x00, 0x3F, 0x00, 0xFF, 0xD9})
	f.Add(byte(6), []byte{0xFF, 0x4F, 0xFF, 0x51, 0x00, 0x29})
	f.Fuzz(func(t *testing.T, sel byte, data []byte) {
		if len(data) > maxInput {
			return
		}
		entry := dec.Entries[int(sel)%len(dec.Entries)]
		c := &Case{Entry: entry, Input: data, Muts: []string{"native-fuzz"}}
		if len(entry) > 6 && entry[:6] == "codec:" {
			c.Info = &dec.Info{W: 8, H: 8, BA: 8, BS: 8, SPP: 1}
		}
		// Time and allocation size are C09's subject. The fuzz engine treats an execution of about
		// ten seconds as a hang and stops the whole campaign, so inputs that declare much work are
		// left to the worker-based tests: more than 2^18 samples, or more than 2^12 precincts.
		if s, found := declared(c); found && s > 1<<18 {
			return
		}
		if preparse.J2KPrecincts(data) > 1<<12 {
			return
		}
		fail := core.Guard(func() *core.Failure {
			_ = dec.Run(entry, data, c.Info)
			return nil
		})
		if fail != nil {
			core.Eval(t, "C08", "fuzz", c, func(*Case) core.Outcome {
				return core.Outcome{NonTrivial: true, Labels: []string{"entry=" + entry, "native-fuzz"}, Fail: fail}
			})
		}
	})
}
