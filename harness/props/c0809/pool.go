// Package c0809 holds the shared machinery of properties C08 (no decoder panics) and C09
// (bounded time and memory): the pool of small valid streams, the mutation programs, and the
// client of the decode worker children.
package c0809

import (
	"bytes"
	"image"
	"image/jpeg"
	"os"
	"path/filepath"
	"sort"

	"github.com/cocosip/go-dicom-codecs/codec"
	"github.com/cocosip/go-dicom-codecs/jpeg/baseline"
	"github.com/cocosip/go-dicom-codecs/jpeg/extended"
	jl "github.com/cocosip/go-dicom-codecs/jpeg/lossless"
	"github.com/cocosip/go-dicom-codecs/jpeg/lossless14sv1"
	"github.com/cocosip/go-dicom-codecs/jpeg2000"
	"github.com/cocosip/go-dicom-codecs/jpeg2000/htj2k"
	jlsl "github.com/cocosip/go-dicom-codecs/jpegls/lossless"
	jlsn "github.com/cocosip/go-dicom-codecs/jpegls/nearlossless"
	"github.com/cocosip/go-dicom-codecs/rle"
	"github.com/cocosip/go-dicom/pkg/dicom/transfer"
	dcodec "github.com/cocosip/go-dicom/pkg/imaging/codec"
	"github.com/cocosip/go-dicom/pkg/imaging/imagetypes"

	"verif/harness/dec"
	"verif/harness/gen"
	"verif/harness/ref/dctenc"
	"verif/harness/ref/t81"
)

// Item is one valid stream of the pool with the entry points that accept it.
type Item struct {
	Name    string
	Family  string // jpeg | jpegls | j2k | rle
	Data    []byte
	Info    dec.Info // geometry for codec-level entry points
	Entries []string
}

func noise(w, h, c, p int, seed uint64) *gen.Image {
	return &gen.Image{W: w, H: h, C: c, P: p, Class: "noise", Seed: seed}
}

func must(b []byte, err error) []byte {
	if err != nil {
		panic("harness: pool construction failed: " + err.Error())
	}
	return b
}

// BuildPool constructs the pool deterministically from the library's and the reference encoders.
func BuildPool() []*Item {
	var pool []*Item
	add := func(name, fam string, data []byte, info dec.Info, entries ...string) {
		pool = append(pool, &Item{Name: name, Family: fam, Data: data, Info: info, Entries: entries})
	}
	inf := func(im *gen.Image) dec.Info {
		ba := 8
		if im.P > 8 {
			ba = 16
		}
		return dec.Info{W: im.W, H: im.H, BA: ba, BS: im.P, SPP: im.C}
	}
	for i, g := range [][3]int{{5, 3, 1}, {9, 8, 3}, {17, 16, 1}, {1, 1, 1}} {
		im := noise(g[0], g[1], g[2], 8, uint64(i+1))
		add("baseline-"+itoa(i), "jpeg", must(baseline.Encode(im.Bytes(), im.W, im.H, im.C, 75)), inf(im), "baseline", "extended", "codec:50", "codec:51")
	}
	im12 := noise(9, 7, 1, 12, 5)
	add("extended12", "jpeg", must(extended.Encode(im12.Bytes(), 9, 7, 1, 12, 60)), inf(im12), "extended", "codec:51")
	for i, pr := range []int{1, 4, 7} {
		im := noise(6+i, 4, 1+2*(i%2), 8+4*i, uint64(10+i))
		add("lossless-"+itoa(pr), "jpeg", must(jl.Encode(im.Bytes(), im.W, im.H, im.C, im.P, pr)), inf(im), "lossless", "sv1", "codec:57", "codec:70")
	}
	imsv := noise(7, 5, 3, 8, 20)
	add("sv1", "jpeg", must(lossless14sv1.Encode(imsv.Bytes(), 7, 5, 3, 8)), inf(imsv), "sv1", "lossless", "codec:70", "codec:57")
	// reference-encoder streams: tables 2/3, 4:2:0 with restart intervals
	ri := &t81.Image{W: 5, H: 4, C: 3, P: 8, Pred: 5, Samples: noise(5, 4, 3, 8, 21).Samples()}
	std, _ := t81.FromLengths(t81.StdLengths, false)
	rs, err := t81.Encode(ri, t81.EncodeOpts{Td: []int{0, 2, 3}, Tables: [4]*t81.Table{std, nil, std, std}})
	add("t81-td23", "jpeg", must(rs, err), dec.Info{W: 5, H: 4, BA: 8, BS: 8, SPP: 3}, "lossless", "sv1", "codec:57")
	yc := noise(20, 18, 3, 8, 22)
	add("dct-420-dri", "jpeg", must(dctenc.Encode(dctenc.Opts{W: 20, H: 18, HY: 2, VY: 2, Quality: 50, DRI: 1, JFIF: true}, yc.Bytes())), inf(yc), "baseline", "extended", "codec:50", "codec:51")
	var jb bytes.Buffer
	g := image.NewGray(image.Rect(0, 0, 11, 9))
	copy(g.Pix, noise(11, 9, 1, 8, 23).Bytes())
	_ = jpeg.Encode(&jb, g, &jpeg.Options{Quality: 80})
	add("stdlib-gray", "jpeg", jb.Bytes(), dec.Info{W: 11, H: 9, BA: 8, BS: 8, SPP: 1}, "baseline", "extended", "codec:50")
	// JPEG-LS
	for i, cfg := range [][4]int{{7, 5, 1, 8}, {6, 4, 3, 8}, {5, 5, 1, 12}, {9, 2, 1, 16}} {
		im := noise(cfg[0], cfg[1], cfg[2], cfg[3], uint64(30+i))
		add("jpegls-"+itoa(i), "jpegls", must(jlsl.Encode(im.Bytes(), im.W, im.H, im.C, im.P)), inf(im), "jpegls", "jpegls-near", "codec:80", "codec:81")
		add("jpegls-near-"+itoa(i), "jpegls", must(jlsn.Encode(im.Bytes(), im.W, im.H, im.C, im.P, 2)), inf(im), "jpegls-near", "jpegls", "codec:81", "codec:80")
	}
	runs := &gen.Image{W: 40, H: 3, C: 1, P: 8, Class: "runs", Seed: 3}
	add("jpegls-runs", "jpegls", must(jlsl.Encode(runs.Bytes(), 40, 3, 1, 8)), inf(runs), "jpegls", "jpegls-near", "codec:80")
	// A flat 65535 x 2 image written by hand (the encoder is not needed for it): two lines of
	// run mode, "1" bits only, so that the run index climbs to the end of the J table.
	wide := []byte{0xFF, 0xD8, 0xFF, 0xF7, 0x00, 0x0B, 0x08, 0x00, 0x02, 0xFF, 0xFF, 0x01, 0x01, 0x11, 0x00,
		0xFF, 0xDA, 0x00, 0x08, 0x01, 0x01, 0x00, 0x00, 0x00, 0x00, 0xFF, 0x7F, 0xFF, 0x7F, 0xFF, 0x7F, 0xFF, 0x7F, 0xFF, 0xD9}
	add("jpegls-wide-flat", "jpegls", wide, dec.Info{W: 65535, H: 2, BA: 8, BS: 8, SPP: 1}, "jpegls", "jpegls-near", "codec:80")
	// JPEG 2000
	j2 := func(name string, im *gen.Image, f func(p *jpeg2000.EncodeParams)) {
		p := jpeg2000.DefaultEncodeParams(im.W, im.H, im.C, im.P, im.Signed)
		p.NumLevels = 2
		f(p)
		s := must(jpeg2000.NewEncoder(p).Encode(im.Bytes()))
		add(name, "j2k", s, inf(im), "j2k", "j2k-parser", "j2k-ht", "codec:90", "codec:91", "codec:92", "codec:93")
	}
	j2("j2k-rev", noise(12, 9, 1, 8, 40), func(p *jpeg2000.EncodeParams) {})
	j2("j2k-rev-rgb-layers", noise(10, 8, 3, 8, 41), func(p *jpeg2000.EncodeParams) { p.NumLayers = 3; p.ProgressionOrder = 2 })
	j2("j2k-lossy", noise(16, 16, 1, 12, 42), func(p *jpeg2000.EncodeParams) { p.Lossless = false; p.Quality = 60 })
	j2("j2k-tiles", noise(16, 12, 1, 8, 43), func(p *jpeg2000.EncodeParams) { p.TileWidth, p.TileHeight, p.NumLevels = 8, 8, 1 })
	j2("j2k-precincts", noise(40, 33, 1, 16, 44), func(p *jpeg2000.EncodeParams) {
		p.PrecinctWidth, p.PrecinctHeight, p.CodeBlockWidth, p.CodeBlockHeight, p.ProgressionOrder = 32, 32, 16, 16, 3
	})
	j2("j2k-roi", noise(12, 12, 1, 8, 45), func(p *jpeg2000.EncodeParams) {
		p.ROI = &jpeg2000.ROIParams{X0: 2, Y0: 2, Width: 5, Height: 5, Shift: 3}
	})
	// sparse and smooth content with many bit-planes: code-blocks whose clean-up passes still
	// have decisions to make after the first planes (dense noise saturates the significance map)
	j2("j2k-sparse", &gen.Image{W: 16, H: 16, C: 1, P: 8, Class: "sparse", Seed: 47}, func(p *jpeg2000.EncodeParams) { p.NumLevels = 0 })
	j2("j2k-gradient12", &gen.Image{W: 24, H: 16, C: 1, P: 12, Class: "gradient", Seed: 48}, func(p *jpeg2000.EncodeParams) { p.NumLevels = 1 })
	j2("j2k-part2mct", noise(8, 8, 2, 8, 46), func(p *jpeg2000.EncodeParams) {
		p.NumLevels = 0
		p.MCTBindings = []jpeg2000.MCTBindingParams{{AssocType: 2, ComponentIDs: []uint16{0, 1}, Matrix: [][]float64{{1, 0}, {0, 1}}, Inverse: [][]float64{{1, 0}, {0, 1}}, Offsets: []int32{5, -5}, ElementType: 1}}
	})
	// A hand-written 8x8 stream with the "JP2MCT" comment payload (a custom inverse component
	// transform the decoder accepts as a fallback, version 1: rows, cols, reversible flag, float32
	// matrix); the library's encoder never writes it, so only this item lets mutations reach it.
	com := []byte{0xFF, 0x4F,
		0xFF, 0x51, 0, 41, 0, 0, 0, 0, 0, 8, 0, 0, 0, 8, 0, 0, 0, 0, 0, 0, 0, 0, 0, 0, 0, 8, 0, 0, 0, 8, 0, 0, 0, 0, 0, 0, 0, 0, 0, 1, 7, 1, 1,
		0xFF, 0x52, 0, 12, 0, 0, 0, 1, 0, 0, 4, 4, 0, 1,
		0xFF, 0x5C, 0, 4, 0x40, 0x48,
		0xFF, 0x64, 0, 20, 0, 0, 'J', 'P', '2', 'M', 'C', 'T', 1, 0, 1, 0, 1, 0, 0x3F, 0x80, 0, 0,
		0xFF, 0x90, 0, 10, 0, 0, 0, 0, 0, 15, 0, 1, 0xFF, 0x93, 0x00,
		0xFF, 0xD9}
	add("j2k-com-jp2mct", "j2k", com, dec.Info{W: 8, H: 8, BA: 8, BS: 8, SPP: 1}, "j2k", "j2k-parser", "codec:90")
	// HTJ2K through the codec
	for i, ts := range []*transfer.Syntax{transfer.HTJ2KLossless, transfer.HTJ2K} {
		im := noise(13, 11, 1+2*i, 8, uint64(50+i))
		cd, _ := dcodec.GetGlobalRegistry().GetCodec(ts)
		fi := &imagetypes.FrameInfo{Width: uint16(im.W), Height: uint16(im.H), BitsAllocated: 8, BitsStored: 8, HighBit: 7, SamplesPerPixel: uint16(im.C)}
		src, dst := codec.NewTestPixelData(fi), codec.NewTestPixelData(fi)
		_ = src.AddFrame(im.Bytes())
		par := htj2k.NewHTJ2KParameters()
		par.NumLevels = 2
		if err := cd.Encode(src, dst, par); err != nil {
			panic("harness: htj2k pool: " + err.Error())
		}
		f, _ := dst.GetFrame(0)
		add("htj2k-"+itoa(i), "j2k", f, inf(im), "j2k-ht", "j2k-parser", "j2k", "codec:201", "codec:202", "codec:203")
	}
	// HTJ2K frames that are one code-block of 32x32 / 64x64 almost-empty samples (no decomposition):
	// the clean-up pass is dominated by its MEL run-length stream (TestHTBlockTails)
	for i, side := range []int{32, 64} {
		im := &gen.Image{W: side, H: side, C: 1, P: 8, Class: "sparse", Seed: uint64(70 + i)}
		cd, _ := dcodec.GetGlobalRegistry().GetCodec(transfer.HTJ2KLossless)
		fi := &imagetypes.FrameInfo{Width: uint16(im.W), Height: uint16(im.H), BitsAllocated: 8, BitsStored: 8, HighBit: 7, SamplesPerPixel: 1}
		src, dst := codec.NewTestPixelData(fi), codec.NewTestPixelData(fi)
		_ = src.AddFrame(im.Bytes())
		par := htj2k.NewHTJ2KParameters()
		par.NumLevels = 0
		if err := cd.Encode(src, dst, par); err != nil {
			panic("harness: htj2k block pool: " + err.Error())
		}
		f, _ := dst.GetFrame(0)
		add("htj2k-block"+itoa(side), "j2k", f, inf(im), "j2k-ht", "j2k", "codec:201")
	}
	// third-party HTJ2K fixtures, truncated to 4 KiB (kept as parser / decoder food)
	fx, _ := filepath.Glob("/repo/test-data/htj2k/interop/*/fo_htj2k_lossless.j2c")
	sort.Strings(fx)
	for i, f := range fx {
		b, err := os.ReadFile(f)
		if err != nil || len(b) == 0 {
			continue
		}
		if len(b) > 4096 {
			b = b[:4096]
		}
		add("fixture-"+itoa(i), "j2k", b, dec.Info{W: 128, H: 128, BA: 8, BS: 8, SPP: 1}, "j2k-ht", "j2k-parser", "codec:201")
	}
	// RLE
	for i, cfg := range [][4]int{{6, 5, 8, 1}, {4, 4, 16, 1}, {5, 3, 8, 3}} {
		im := &gen.Image{W: cfg[0], H: cfg[1], C: cfg[3], P: cfg[2], Class: "runs", Seed: uint64(60 + i)}
		fi := &imagetypes.FrameInfo{Width: uint16(im.W), Height: uint16(im.H), BitsAllocated: uint16(cfg[2]), BitsStored: uint16(cfg[2]), HighBit: uint16(cfg[2] - 1), SamplesPerPixel: uint16(im.C)}
		src, dst := codec.NewTestPixelData(fi), codec.NewTestPixelData(fi)
		_ = src.AddFrame(im.Bytes())
		if err := rle.NewRLECodec().Encode(src, dst, nil); err != nil {
			panic("harness: rle pool: " + err.Error())
		}
		f, _ := dst.GetFrame(0)
		add("rle-"+itoa(i), "rle", f, dec.Info{W: im.W, H: im.H, BA: cfg[2], BS: cfg[2], SPP: im.C}, "codec:RLE")
	}
	return pool
}

func itoa(i int) string {
	if i == 0 {
		return "0"
	}
	s := ""
	for i > 0 {
		s = string(rune('0'+i%10)) + s
		i /= 10
	}
	return s
}
