// C10 DICOM codec contract: frames map 1:1, in order, independently, deterministically.
// A history (sequence of calls on the registered codec / one jpeg2000.Encoder / one
// jpeg2000.Decoder) is generated as data; the model of every frame is what a fresh call on
// that frame alone produces.
package c10

import (
	"sort"
	"bytes"
	"fmt"
	"testing"

	"github.com/cocosip/go-dicom-codecs/codec"
	_ "github.com/cocosip/go-dicom-codecs/jpeg/baseline"
	_ "github.com/cocosip/go-dicom-codecs/jpeg/extended"
	_ "github.com/cocosip/go-dicom-codecs/jpeg/lossless"
	_ "github.com/cocosip/go-dicom-codecs/jpeg/lossless14sv1"
	"github.com/cocosip/go-dicom-codecs/jpeg2000"
	_ "github.com/cocosip/go-dicom-codecs/jpeg2000/htj2k"
	_ "github.com/cocosip/go-dicom-codecs/jpeg2000/lossless"
	_ "github.com/cocosip/go-dicom-codecs/jpeg2000/lossy"
	_ "github.com/cocosip/go-dicom-codecs/jpegls/lossless"
	_ "github.com/cocosip/go-dicom-codecs/jpegls/nearlossless"
	_ "github.com/cocosip/go-dicom-codecs/rle"
	"github.com/cocosip/go-dicom/pkg/dicom/transfer"
	dcodec "github.com/cocosip/go-dicom/pkg/imaging/codec"
	"github.com/cocosip/go-dicom/pkg/imaging/imagetypes"
	"pgregory.net/rapid"

	"verif/harness/core"
	"verif/harness/gen"
	"verif/harness/ref/t87"
)

const ID = "C10"

func TestMain(m *testing.M) { core.Main(m, ID) }

type syntax struct {
	Key          string
	TS           *transfer.Syntax
	Lossless     bool
	MinBS, MaxBS int
	BS8or12      bool // Extended: precision classes 8 / 12
	J2K          bool
}

var syntaxes = []syntax{
	{Key: "RLE", TS: transfer.RLELossless, Lossless: true, MinBS: 2, MaxBS: 16},
	{Key: "50", TS: transfer.JPEGBaseline8Bit, MinBS: 2, MaxBS: 8},
	{Key: "51", TS: transfer.JPEGProcess2_4, MinBS: 2, MaxBS: 12},
	{Key: "57", TS: transfer.JPEGLossless, Lossless: true, MinBS: 2, MaxBS: 16},
	{Key: "70", TS: transfer.JPEGLosslessSV1, Lossless: true, MinBS: 2, MaxBS: 16},
	{Key: "80", TS: transfer.JPEGLSLossless, Lossless: true, MinBS: 2, MaxBS: 16},
	{Key: "81", TS: transfer.JPEGLSNearLossless, MinBS: 2, MaxBS: 16},
	{Key: "90", TS: transfer.JPEG2000Lossless, Lossless: true, MinBS: 2, MaxBS: 16, J2K: true},
	{Key: "91", TS: transfer.JPEG2000Lossy, MinBS: 2, MaxBS: 16, J2K: true},
	{Key: "92", TS: transfer.JPEG2000Part2MultiComponentLosslessOnly, Lossless: true, MinBS: 2, MaxBS: 16, J2K: true},
	{Key: "93", TS: transfer.JPEG2000Part2MultiComponent, MinBS: 2, MaxBS: 16, J2K: true},
	{Key: "201", TS: transfer.HTJ2KLossless, Lossless: true, MinBS: 2, MaxBS: 16},
	{Key: "202", TS: transfer.HTJ2KLosslessRPCL, Lossless: true, MinBS: 2, MaxBS: 16},
	{Key: "203", TS: transfer.HTJ2K, MinBS: 2, MaxBS: 16},
}

func syntaxByKey(k string) *syntax {
	for i := range syntaxes {
		if syntaxes[i].Key == k {
			return &syntaxes[i]
		}
	}
	panic("harness: syntax " + k)
}

// Frame is one pool frame: content class and seed (geometry comes from the case).
type Frame struct {
	Class string
	Seed  uint64
}

// Action is one step of the history.
//
//	encode:    Encode the frames Seq (indices into Pool) in one call
//	decode:    Decode the encoded forms of Seq in one call
//	encobj:    one jpeg2000.Encoder object, Encode each frame of Seq in turn (J2K syntaxes)
//	decobj:    one jpeg2000.Decoder object fed the streams Streams in turn
type Action struct {
	Kind    string
	Seq     []int    `json:",omitempty"`
	Streams []string `json:",omitempty"` // decobj: "plain:<i>", "mct:<i>", "nomct:<i>", "roi:<i>", "part2:<i>"
	Other   *Other   `json:",omitempty"` // kind "other"
	// Alt (decode, JPEG-LS syntaxes): frame k of the sequence is the variant stream that carries
	// an LSE preset-parameters segment (other thresholds than the defaults). What the variant
	// decodes to alone is the model; a decoder that keeps presets from one frame to the next
	// shows as a plain frame decoding differently behind a variant.
	Alt []bool `json:",omitempty"`
}

// Other is an unrelated call made on the same registered codec between the actions of a
// history: one frame of another geometry and depth, encoded (and decoded again) with explicit,
// non-default parameters. Its own result is not judged; what follows it is ("output i depends
// ... not on earlier calls made on the same codec").
type Other struct {
	W, H, SPP, BA, BS int
	Seed              uint64
	Ints              map[string]int  `json:",omitempty"`
	Bools             map[string]bool `json:",omitempty"`
}

type Case struct {
	Syntax      string
	W, H        int
	BA, BS, SPP int
	Signed      bool `json:",omitempty"`
	Planar      int  `json:",omitempty"`
	Pool        []Frame
	Actions     []Action
	// SharedPar: one GetDefaultParameters() object serves every Encode / Decode call of the
	// history (including the unrelated calls, which then set nothing on it), the way a caller
	// keeps one parameters object for a study. The model calls get a fresh object each, so a call
	// that leaves something of its image in the object shows in what follows.
	SharedPar bool `json:",omitempty"`
}

var frameClasses = []string{"noise", "constant", "gradient", "twolevel", "runs", "extremes"}

func genSeq(t *rapid.T, pool int) []int {
	n := rapid.IntRange(1, 8).Draw(t, "seqlen")
	return rapid.SliceOfN(rapid.IntRange(0, pool-1), n, n).Draw(t, "seq")
}

func Gen(t *rapid.T) *Case {
	sx := rapid.SampledFrom(syntaxes).Draw(t, "syntax")
	c := &Case{Syntax: sx.Key, W: rapid.IntRange(1, 24).Draw(t, "w"), H: rapid.IntRange(1, 24).Draw(t, "h"), SPP: rapid.SampledFrom([]int{1, 1, 3}).Draw(t, "spp")}
	if rapid.IntRange(0, 3).Draw(t, "sharedpar") == 0 {
		c.SharedPar = true
		c.W, c.H = rapid.IntRange(1, 72).Draw(t, "w2"), rapid.IntRange(1, 72).Draw(t, "h2")
	}
	c.BA = rapid.SampledFrom([]int{8, 16}).Draw(t, "ba")
	hi := min(c.BA, sx.MaxBS)
	c.BS = rapid.IntRange(sx.MinBS, hi).Draw(t, "bs")
	if rapid.Bool().Draw(t, "bsfull") {
		c.BS = hi
	}
	// Steering (DESIGN.md 4.2): BitsAllocated=16 with BitsStored<=8 is the class of the open
	// finding KF-C10-1 for every codec that sizes its container from BitsStored; keep ~10 % of it.
	if c.BA == 16 && c.BS <= 8 && hi > 8 && sx.Key != "RLE" && sx.Key != "201" && sx.Key != "202" && sx.Key != "203" && rapid.IntRange(0, 9).Draw(t, "steer") > 0 {
		c.BS = rapid.IntRange(9, hi).Draw(t, "bs16")
	}
	if c.BA == 16 && sx.Key == "50" && rapid.IntRange(0, 9).Draw(t, "steer50") > 0 {
		c.BA = 8
	}
	if sx.Key == "51" && c.BS > 8 {
		c.SPP = 1 // 12-bit JPEG Extended is documented as monochrome only
	}
	if sx.J2K || sx.Key == "201" || sx.Key == "202" || sx.Key == "203" || sx.Key == "RLE" {
		c.Signed = rapid.IntRange(0, 3).Draw(t, "signed") == 0
	}
	if sx.Key == "RLE" {
		c.Planar = rapid.IntRange(0, 1).Draw(t, "planar")
	}
	np := rapid.IntRange(2, 6).Draw(t, "pool")
	for i := 0; i < np; i++ {
		c.Pool = append(c.Pool, Frame{Class: rapid.SampledFrom(frameClasses).Draw(t, "class"), Seed: rapid.Uint64().Draw(t, "seed")})
	}
	na := rapid.IntRange(1, 6).Draw(t, "nactions")
	for i := 0; i < na; i++ {
		kinds := []string{"encode", "encode", "decode", "decode"}
		if i+1 < na {
			kinds = append(kinds, "other") // always followed by something that is judged
		}
		if sx.J2K {
			kinds = append(kinds, "encobj", "decobj", "decobj")
		}
		a := Action{Kind: rapid.SampledFrom(kinds).Draw(t, "kind")}
		switch a.Kind {
		case "other":
			ot := &Other{W: rapid.IntRange(1, 40).Draw(t, "ow"), H: rapid.IntRange(1, 40).Draw(t, "oh"), SPP: rapid.SampledFrom([]int{1, 3}).Draw(t, "ospp"),
				BA: rapid.SampledFrom([]int{8, 16}).Draw(t, "oba"), Seed: rapid.Uint64().Draw(t, "oseed"), Ints: map[string]int{}, Bools: map[string]bool{}}
			ot.BS = rapid.IntRange(sx.MinBS, min(ot.BA, sx.MaxBS)).Draw(t, "obs")
			if ot.BA == 16 && ot.BS <= 8 && sx.MaxBS > 8 {
				ot.BS = min(16, sx.MaxBS) // keep the unrelated call itself outside KF-C10-1
			}
			if sx.Key == "51" && ot.BS > 8 {
				ot.SPP = 1
			}
			if sx.Key == "50" {
				ot.BA = 8
				ot.BS = min(ot.BS, 8)
			}
			for _, name := range []string{"quality", "predictor", "near", "numLevels", "numLayers", "rate", "progressionOrder", "targetRatio", "blockWidth", "blockHeight"} {
				if rapid.IntRange(0, 2).Draw(t, "set") == 0 {
					ot.Ints[name] = map[string]*rapid.Generator[int]{"quality": rapid.IntRange(1, 100), "predictor": rapid.IntRange(1, 7), "near": rapid.IntRange(0, 9),
						"numLevels": rapid.IntRange(0, 4), "numLayers": rapid.IntRange(1, 5), "rate": rapid.IntRange(2, 300), "progressionOrder": rapid.IntRange(0, 4),
						"targetRatio": rapid.IntRange(0, 40), "blockWidth": rapid.SampledFrom([]int{4, 16, 32}), "blockHeight": rapid.SampledFrom([]int{4, 16, 32})}[name].Draw(t, name)
				}
			}
			for _, name := range []string{"allowMCT", "irreversible", "usePCRDOpt", "appendLosslessLayer"} {
				if rapid.IntRange(0, 2).Draw(t, "setb") == 0 {
					ot.Bools[name] = rapid.Bool().Draw(t, name)
				}
			}
			a.Other = ot
		case "decobj":
			n := rapid.IntRange(2, 5).Draw(t, "nstreams")
			for k := 0; k < n; k++ {
				a.Streams = append(a.Streams, fmt.Sprintf("%s:%d", rapid.SampledFrom([]string{"plain", "mct", "nomct", "roi", "part2", "depth", "depth", "size", "comps", "lossy", "tiles"}).Draw(t, "skind"), rapid.IntRange(0, np-1).Draw(t, "sidx")))
			}
		default:
			a.Seq = genSeq(t, np)
			if a.Kind == "decode" && (sx.Key == "80" || sx.Key == "81") {
				a.Alt = rapid.SliceOfN(rapid.Bool(), len(a.Seq), len(a.Seq)).Draw(t, "alt")
			}
			if rapid.IntRange(0, 4).Draw(t, "repeat") == 0 { // the same frame repeated
				for k := range a.Seq {
					a.Seq[k] = a.Seq[0]
				}
			}
		}
		c.Actions = append(c.Actions, a)
	}
	return c
}

// ---------------------------------------------------------------------------------------

func (c *Case) info() *imagetypes.FrameInfo {
	pi := "MONOCHROME2"
	if c.SPP == 3 {
		pi = "RGB"
	}
	pr := uint16(0)
	if c.Signed {
		pr = 1
	}
	return &imagetypes.FrameInfo{Width: uint16(c.W), Height: uint16(c.H), BitsAllocated: uint16(c.BA), BitsStored: uint16(c.BS), HighBit: uint16(c.BS - 1),
		SamplesPerPixel: uint16(c.SPP), PixelRepresentation: pr, PlanarConfiguration: uint16(c.Planar), PhotometricInterpretation: pi}
}

// frameBytes renders pool frame i in the BitsAllocated container, samples below 2^BS.
func (c *Case) frameBytes(i int) []byte {
	f := c.Pool[i]
	im := &gen.Image{W: c.W, H: c.H, C: c.SPP, P: c.BS, Signed: c.Signed, Class: f.Class, Seed: f.Seed}
	if c.Syntax == "201" || c.Syntax == "202" || c.Syntax == "203" {
		im.P = c.BA // the HTJ2K codecs code the whole container
	}
	return gen.PackBytes(im.Samples(), im.P, c.BA/8)
}

type env struct {
	c      *Case
	sx     *syntax
	cd     dcodec.Codec
	info   *imagetypes.FrameInfo
	frames [][]byte
	encOne [][]byte // model: fresh single-frame encode
	decOne [][]byte // model: fresh single-frame decode of encOne[i]
	par    dcodec.Parameters // the history's shared parameters object (SharedPar), else nil
	inHist bool
	encAlt [][]byte // JPEG-LS: encOne[i] with an LSE preset segment inserted (nil if not applicable)
	decAlt [][]byte // what encAlt[i] decodes to alone (nil if that call fails)
}

// withLSE inserts an LSE preset-parameters segment (ID 1) with thresholds one, two and three
// above the defaults of (MAXVAL, NEAR) in front of the SOS of a JPEG-LS stream.
func withLSE(s []byte, maxval int) []byte {
	for i := 2; i+4 < len(s); {
		if s[i] != 0xFF {
			return nil
		}
		l := int(s[i+2])<<8 | int(s[i+3])
		if s[i+1] == 0xDA {
			ns := int(s[i+4])
			if i+5+2*ns >= len(s) {
				return nil
			}
			near := int(s[i+5+2*ns])
			t1, t2, t3, _, _, _ := t87.Defaults(maxval, near)
			t1, t2, t3 = min(t1+1, maxval), min(t2+2, maxval), min(t3+3, maxval)
			lse := []byte{0xFF, 0xF8, 0x00, 0x0D, 0x01, byte(maxval >> 8), byte(maxval), byte(t1 >> 8), byte(t1), byte(t2 >> 8), byte(t2), byte(t3 >> 8), byte(t3), 0x00, 0x40}
			return append(append(append([]byte(nil), s[:i]...), lse...), s[i:]...)
		}
		i += 2 + l
	}
	return nil
}

// callPar: nil unless the history shares a parameters object; then that object inside the
// history and a fresh default object for every model call.
func (e *env) callPar() dcodec.Parameters {
	if !e.c.SharedPar {
		return nil
	}
	if e.inHist {
		return e.par
	}
	return e.cd.GetDefaultParameters()
}

func (e *env) encodeFrames(idx []int) ([][]byte, [][]byte, error) {
	src := codec.NewTestPixelData(e.info)
	var copies [][]byte
	for _, i := range idx {
		b := append([]byte(nil), e.frames[i]...)
		copies = append(copies, b)
		_ = src.AddFrame(b)
	}
	dst := codec.NewTestPixelData(e.info)
	if err := e.cd.Encode(src, dst, e.callPar()); err != nil {
		return nil, copies, err
	}
	var out [][]byte
	for k := 0; k < dst.FrameCount(); k++ {
		f, _ := dst.GetFrame(k)
		out = append(out, f)
	}
	return out, copies, nil
}

func (e *env) decodeFrames(streams [][]byte) ([][]byte, [][]byte, error) {
	src := codec.NewTestPixelData(e.info)
	var copies [][]byte
	for _, s := range streams {
		b := append([]byte(nil), s...)
		copies = append(copies, b)
		_ = src.AddFrame(b)
	}
	dst := codec.NewTestPixelData(e.info)
	if err := e.cd.Decode(src, dst, e.callPar()); err != nil {
		return nil, copies, err
	}
	var out [][]byte
	for k := 0; k < dst.FrameCount(); k++ {
		f, _ := dst.GetFrame(k)
		out = append(out, f)
	}
	return out, copies, nil
}

func (e *env) j2kParams(kind string) *jpeg2000.EncodeParams {
	c := e.c
	p := jpeg2000.DefaultEncodeParams(c.W, c.H, c.SPP, c.BS, c.Signed)
	p.NumLevels = 2
	switch kind {
	case "nomct":
		p.EnableMCT = false
	case "roi":
		p.ROI = &jpeg2000.ROIParams{X0: 0, Y0: 0, Width: (c.W + 1) / 2, Height: (c.H + 1) / 2, Shift: 3}
	case "part2":
		if c.SPP >= 2 {
			ids := []uint16{0, 1}
			p.MCTBindings = []jpeg2000.MCTBindingParams{{AssocType: 2, ComponentIDs: ids, Matrix: [][]float64{{1, 0}, {0, 1}}, Inverse: [][]float64{{1, 0}, {0, 1}},
				Offsets: []int32{5, -5}, ElementType: 1}}
			p.NumLevels = 0
		}
	}
	return p
}

// j2kStream builds a codestream for the reused-Decoder action. The kinds "depth", "size",
// "comps", "lossy" and "tiles" describe an unrelated image (other precision / geometry /
// component count / transform / tiling) so that state carried over from it would show.
func (e *env) j2kStream(kind string, idx int) ([]byte, error) {
	c := e.c
	f := c.Pool[idx]
	w, h, comps, depth, signed := c.W, c.H, c.SPP, c.BS, c.Signed
	switch kind {
	case "depth":
		if depth > 8 {
			depth = 5
		} else {
			depth = 16
		}
	case "size":
		w, h = c.H+3, c.W+1
	case "comps":
		comps = 4 - c.SPP // 1 <-> 3
		signed = !signed
	}
	if kind != "depth" && kind != "size" && kind != "comps" && kind != "lossy" && kind != "tiles" {
		return jpeg2000.NewEncoder(e.j2kParams(kind)).Encode(e.j2kFrame(idx))
	}
	im := &gen.Image{W: w, H: h, C: comps, P: depth, Signed: signed, Class: f.Class, Seed: f.Seed}
	p := jpeg2000.DefaultEncodeParams(w, h, comps, depth, signed)
	p.NumLevels = 2
	if kind == "lossy" {
		p.Lossless, p.Quality = false, 70
		if depth < 8 {
			return jpeg2000.NewEncoder(e.j2kParams("plain")).Encode(e.j2kFrame(idx))
		}
	}
	if kind == "tiles" {
		p.TileWidth, p.TileHeight, p.NumLevels = 8, 8, 1
	}
	return jpeg2000.NewEncoder(p).Encode(im.Bytes())
}

// j2kFrame: the J2K object-level API uses the BitsStored-sized container.
func (e *env) j2kFrame(i int) []byte {
	f := e.c.Pool[i]
	im := &gen.Image{W: e.c.W, H: e.c.H, C: e.c.SPP, P: e.c.BS, Signed: e.c.Signed, Class: f.Class, Seed: f.Seed}
	return im.Bytes()
}

func getc(sx *syntax) (dcodec.Codec, bool) { return dcodec.GetGlobalRegistry().GetCodec(sx.TS) }

func Check(c *Case) (o core.Outcome) {
	sx := syntaxByKey(c.Syntax)
	cd, ok := dcodec.GetGlobalRegistry().GetCodec(sx.TS)
	if !ok {
		o.Fail = core.Failf("not-registered", "no codec registered for %s", sx.Key)
		return
	}
	e := &env{c: c, sx: sx, cd: cd, info: c.info()}
	before := core.Snapshot(cd)
	defer func() {
		if after := core.Snapshot(cd); after != before && o.Fail == nil {
			o.Fail = core.Failf("codec-field-changed", "the registered %s codec object changed during the history: %s -> %s", sx.Key, before, after)
		}
	}()
	o.Label("syntax=%s", sx.Key)
	o.Label("ba=%d", c.BA)
	if c.BS < c.BA {
		o.Label("bs<ba")
	}
	if c.BA == 16 && c.BS <= 8 {
		o.Label("ba16&bs<=8")
	}
	if c.Signed {
		o.Label("signed")
	}
	o.Label("spp=%d", c.SPP)
	distinctFrames := map[string]bool{}
	for i := range c.Pool {
		e.frames = append(e.frames, c.frameBytes(i))
		distinctFrames[string(e.frames[i])] = true
	}
	reuse, multi := false, false
	for _, a := range c.Actions {
		o.Label("action=%s", a.Kind)
		if a.Kind == "encobj" || a.Kind == "decobj" {
			reuse = true
		}
		if len(a.Seq) >= 2 {
			multi = true
		}
	}
	o.NonTrivial = len(distinctFrames) >= 2 && (reuse || multi)

	// the model: every pool frame encoded and decoded alone by a fresh call
	wantLen := c.W * c.H * c.SPP * (c.BA / 8)
	if sx.Key == "RLE" && wantLen%2 == 1 {
		wantLen++
	}
	for i := range c.Pool {
		enc, _, err := e.encodeFrames([]int{i})
		if err != nil {
			o.Fail = core.Failf("encode-error", "single frame %d: %v", i, err)
			return
		}
		if len(enc) != 1 {
			o.Fail = core.Failf("frame-count", "encoding 1 frame produced %d", len(enc))
			return
		}
		e.encOne = append(e.encOne, enc[0])
		dec, _, err := e.decodeFrames([][]byte{enc[0]})
		if err != nil {
			o.Fail = core.Failf("decode-error", "single frame %d: %v", i, err)
			return
		}
		if len(dec) != 1 {
			o.Fail = core.Failf("frame-count", "decoding 1 frame produced %d", len(dec))
			return
		}
		if len(dec[0]) != wantLen {
			o.Fail = core.Failf("decoded-length", "decoded frame has %d bytes, FrameInfo implies Rows*Cols*SPP*ceil(BA/8) = %d", len(dec[0]), wantLen)
			return
		}
		if sx.Lossless {
			want := e.frames[i]
			if len(want) < wantLen {
				want = append(append([]byte(nil), want...), 0)
			}
			if !bytes.Equal(dec[0], want) {
				o.Fail = core.Failf("lossless-mismatch", "lossless syntax %s: decoded frame %d differs from the source", sx.Key, i)
				return
			}
		}
		e.decOne = append(e.decOne, dec[0])
		var alt, altDec []byte
		if sx.Key == "80" || sx.Key == "81" {
			if alt = withLSE(enc[0], 1<<uint(c.BS)-1); alt != nil {
				if d, _, err := e.decodeFrames([][]byte{alt}); err == nil && len(d) == 1 {
					altDec = d[0]
				} else {
					alt = nil
				}
			}
		}
		e.encAlt, e.decAlt = append(e.encAlt, alt), append(e.decAlt, altDec)
	}

	e.inHist = true
	if c.SharedPar {
		e.par = cd.GetDefaultParameters()
		o.Label("shared-params-object")
	}
	for ai, a := range c.Actions {
		switch a.Kind {
		case "other":
			ot := a.Other
			if ot == nil {
				continue
			}
			pi := "MONOCHROME2"
			if ot.SPP == 3 {
				pi = "RGB"
			}
			oinfo := &imagetypes.FrameInfo{Width: uint16(ot.W), Height: uint16(ot.H), BitsAllocated: uint16(ot.BA), BitsStored: uint16(ot.BS), HighBit: uint16(ot.BS - 1),
				SamplesPerPixel: uint16(ot.SPP), PhotometricInterpretation: pi}
			oim := &gen.Image{W: ot.W, H: ot.H, C: ot.SPP, P: ot.BS, Class: "noise", Seed: ot.Seed}
			par := e.cd.GetDefaultParameters()
			if c.SharedPar {
				par = e.par
			}
			if par != nil && !c.SharedPar {
				names := make([]string, 0, len(ot.Ints)+len(ot.Bools))
				for n := range ot.Ints {
					names = append(names, n)
				}
				for n := range ot.Bools {
					names = append(names, n)
				}
				sort.Strings(names)
				for _, n := range names {
					if v, ok := ot.Ints[n]; ok {
						par.SetParameter(n, v)
					} else {
						par.SetParameter(n, ot.Bools[n])
					}
				}
			}
			osrc, odst := codec.NewTestPixelData(oinfo), codec.NewTestPixelData(oinfo)
			_ = osrc.AddFrame(gen.PackBytes(oim.Samples(), oim.P, ot.BA/8))
			// the unrelated call may be rejected (parameter combinations the codec does not take);
			// it is not judged, but it must not panic (core.Eval's guard reports that)
			if err := e.cd.Encode(osrc, odst, par); err == nil && odst.FrameCount() == 1 {
				back := codec.NewTestPixelData(oinfo)
				_ = e.cd.Decode(odst, back, par)
				o.Label("other-call-accepted")
			} else {
				o.Label("other-call-rejected")
			}
		case "encode":
			out, copies, err := e.encodeFrames(a.Seq)
			if err != nil {
				o.Fail = core.Failf("encode-error", "action %d: %v", ai, err)
				return
			}
			if len(out) != len(a.Seq) {
				o.Fail = core.Failf("frame-count", "action %d: %d frames in, %d out", ai, len(a.Seq), len(out))
				return
			}
			for k, i := range a.Seq {
				if !bytes.Equal(copies[k], e.frames[i]) {
					o.Fail = core.Failf("input-modified", "action %d: Encode modified input frame %d", ai, k)
					return
				}
				if !bytes.Equal(out[k], e.encOne[i]) {
					o.Fail = core.Failf("frame-dependence", "action %d (encode %v): output %d differs from encoding pool frame %d alone", ai, a.Seq, k, i)
					return
				}
			}
		case "decode":
			var streams, wantOut [][]byte
			for k, i := range a.Seq {
				if k < len(a.Alt) && a.Alt[k] && e.encAlt[i] != nil {
					streams, wantOut = append(streams, e.encAlt[i]), append(wantOut, e.decAlt[i])
					o.Label("lse-variant-frame")
				} else {
					streams, wantOut = append(streams, e.encOne[i]), append(wantOut, e.decOne[i])
				}
			}
			out, copies, err := e.decodeFrames(streams)
			if err != nil {
				o.Fail = core.Failf("decode-error", "action %d: %v", ai, err)
				return
			}
			if len(out) != len(a.Seq) {
				o.Fail = core.Failf("frame-count", "action %d: %d frames in, %d out", ai, len(a.Seq), len(out))
				return
			}
			for k, i := range a.Seq {
				if !bytes.Equal(copies[k], streams[k]) {
					o.Fail = core.Failf("input-modified", "action %d: Decode modified input frame %d", ai, k)
					return
				}
				if !bytes.Equal(out[k], wantOut[k]) {
					o.Fail = core.Failf("frame-dependence", "action %d (decode %v): output %d differs from decoding pool frame %d alone", ai, a.Seq, k, i)
					return
				}
			}
		case "encobj":
			p := e.j2kParams("plain")
			p.Lossless = sx.Lossless
			obj := jpeg2000.NewEncoder(p)
			for k, i := range a.Seq {
				f := e.j2kFrame(i)
				keep := append([]byte(nil), f...)
				got, err := obj.Encode(f)
				if err != nil {
					o.Fail = core.Failf("encode-error", "action %d: reused Encoder, call %d: %v", ai, k, err)
					return
				}
				p2 := e.j2kParams("plain")
				p2.Lossless = sx.Lossless
				want, err := jpeg2000.NewEncoder(p2).Encode(append([]byte(nil), keep...))
				if err != nil {
					o.Fail = core.Failf("encode-error", "action %d: fresh Encoder: %v", ai, err)
					return
				}
				if !bytes.Equal(f, keep) {
					o.Fail = core.Failf("input-modified", "action %d: Encoder.Encode modified its input", ai)
					return
				}
				if !bytes.Equal(got, want) {
					o.Fail = core.Failf("object-state", "action %d: call %d on a reused jpeg2000.Encoder differs from a fresh Encoder (sequence %v)", ai, k, a.Seq)
					return
				}
			}
		case "decobj":
			obj := jpeg2000.NewDecoder()
			for k, spec := range a.Streams {
				var kind string
				var idx int
				fmt.Sscanf(spec, "%d", &idx)
				for j := 0; j < len(spec); j++ {
					if spec[j] == ':' {
						kind = spec[:j]
						fmt.Sscanf(spec[j+1:], "%d", &idx)
					}
				}
				if idx >= len(c.Pool) {
					idx = 0
				}
				stream, err := e.j2kStream(kind, idx)
				if err != nil {
					o.Fail = core.Failf("encode-error", "action %d: building %s stream: %v", ai, spec, err)
					return
				}
				o.Label("stream=%s", kind)
				fresh := jpeg2000.NewDecoder()
				ferr := fresh.Decode(append([]byte(nil), stream...))
				oerr := obj.Decode(append([]byte(nil), stream...))
				if (ferr == nil) != (oerr == nil) {
					o.Fail = core.Failf("object-state", "action %d: stream %d (%s): reused Decoder err=%v, fresh Decoder err=%v", ai, k, spec, oerr, ferr)
					return
				}
				if ferr != nil {
					continue
				}
				if !bytes.Equal(obj.GetPixelData(), fresh.GetPixelData()) || obj.Width() != fresh.Width() || obj.Height() != fresh.Height() ||
					obj.Components() != fresh.Components() || obj.BitDepth() != fresh.BitDepth() || obj.IsSigned() != fresh.IsSigned() {
					o.Fail = core.Failf("object-state", "action %d: stream %d (%s) decoded on a reused jpeg2000.Decoder differs from a fresh Decoder (history %v)", ai, k, spec, a.Streams[:k+1])
					return
				}
			}
		}
	}
	return
}

func TestRapid(t *testing.T)  { core.RunRapid(t, ID, Gen, Check) }
func TestReplay(t *testing.T) { core.RunReplay(t, ID, &Case{}, Check) }

func TestQuota(t *testing.T) {
	q := map[string]*rapid.Generator[*Case]{}
	for _, sx := range syntaxes {
		sx := sx
		q["syntax-"+sx.Key] = rapid.Custom(func(t *rapid.T) *Case {
			for {
				c := Gen(t)
				// re-target the drawn history at this syntax
				c.Syntax = sx.Key
				c.BS = max(sx.MinBS, min(c.BS, min(c.BA, sx.MaxBS)))
				if sx.Key == "51" && c.BS > 8 {
					c.SPP = 1
				}
				if !(sx.J2K || sx.Key == "201" || sx.Key == "202" || sx.Key == "203" || sx.Key == "RLE") {
					c.Signed = false
				}
				if !sx.J2K {
					for i := range c.Actions {
						if c.Actions[i].Kind == "encobj" || c.Actions[i].Kind == "decobj" {
							c.Actions[i] = Action{Kind: "encode", Seq: []int{0, len(c.Pool) - 1, 0}}
						}
					}
				}
				if sx.Key != "RLE" {
					c.Planar = 0
				}
				return c
			}
		})
	}
	core.RunQuota(t, ID, q, Check)
	// frames of 2^16 pixels and more through every registered codec (Rows and Columns are
	// 16-bit attributes; buffer sizes and plane offsets computed from their product are not)
	seed := core.EnvInt("VERIF_SEED", 1)
	dims := [][2]int{{256, 256}, {257, 256}, {300, 219}, {1024, 65}, {40, 1640}}
	for i, sx := range syntaxes {
		d := dims[(i+seed)%len(dims)]
		c := &Case{Syntax: sx.Key, W: d[0], H: d[1], BA: 8, BS: 8, SPP: []int{1, 3}[(i+seed)%2],
			Pool: []Frame{{Class: "gradient", Seed: uint64(seed)}, {Class: "runs", Seed: uint64(seed + 1)}},
			Actions: []Action{{Kind: "encode", Seq: []int{0, 1}}, {Kind: "decode", Seq: []int{1, 0}}}}
		if sx.MinBS > 8 {
			c.BA, c.BS = 16, sx.MinBS
		}
		if sx.Key == "RLE" {
			c.SPP, c.Planar = 3, 1
		}
		core.Eval(t, ID, "quota", c, Check)
	}
}
