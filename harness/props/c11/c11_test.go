// C11 JPEG DCT codecs (Baseline/Extended): loss bounded by the quantisation tables declared
// in the emitted stream.
package c11

import (
	"bytes"
	"math"
	"testing"

	"github.com/cocosip/go-dicom-codecs/jpeg/baseline"
	"github.com/cocosip/go-dicom-codecs/jpeg/extended"
	"pgregory.net/rapid"

	"verif/harness/core"
	"verif/harness/gen"
	"verif/harness/ref/walk"
)

const ID = "C11"

func TestMain(m *testing.M) { core.Main(m, ID) }

type Case struct {
	Img     *gen.Image // P 8 (C 1 or 3) or 12 (C 1)
	Quality int
	Codec   string // baseline | extended
}

var zigzag = [64]int{0, 1, 8, 16, 9, 2, 3, 10, 17, 24, 32, 25, 18, 11, 4, 5, 12, 19, 26, 33, 40, 48, 41, 34, 27, 20, 13, 6, 7, 14, 21, 28,
	35, 42, 49, 56, 57, 50, 43, 36, 29, 22, 15, 23, 30, 37, 44, 51, 58, 59, 52, 45, 38, 31, 39, 46, 53, 60, 61, 54, 47, 55, 62, 63}

// QuantBound is (1/8) * sum over (u,v) of C(u)C(v)Q[u,v], the worst-case sample error caused
// by rounding every DCT coefficient to the nearest multiple of its table entry.
func QuantBound(zz []int) float64 {
	s := 0.0
	for k, q := range zz {
		n := zigzag[k]
		u, v := n%8, n/8
		w := 1.0
		if u == 0 {
			w *= math.Sqrt2 / 2
		}
		if v == 0 {
			w *= math.Sqrt2 / 2
		}
		s += w * float64(q)
	}
	return s / 8
}

func maxDim() int {
	if core.Thorough() {
		return 512
	}
	return 96
}

var classes = []string{"noise", "noise", "checker", "twolevel", "gradient", "constant", "extremes", "sparse"}

func Gen(t *rapid.T) *Case {
	md := maxDim()
	if rapid.IntRange(0, 2).Draw(t, "small") > 0 {
		md = 33
	}
	o := gen.ImageOpts{MaxDim: md, MaxArea: md * md, Comps: []int{1, 3}, PMin: 8, PMax: 8, Classes: classes, LiteralMax: 16}
	im := gen.ImageGen(o).Draw(t, "img")
	c := &Case{Img: im, Quality: rapid.OneOf(rapid.IntRange(1, 100), rapid.SampledFrom([]int{1, 2, 50, 75, 99, 100})).Draw(t, "quality")}
	c.Codec = rapid.SampledFrom([]string{"baseline", "extended", "extended"}).Draw(t, "codec")
	if c.Codec == "extended" && rapid.Bool().Draw(t, "12bit") {
		im.P, im.C = 12, 1
		if im.Pix != nil {
			im.Pix = im.Pix[:im.W*im.H]
			for i, v := range im.Pix {
				im.Pix[i] = v * 16
			}
		}
	}
	return c
}

func Check(c *Case) (o core.Outcome) {
	im := c.Img
	px := im.Bytes()
	orig := append([]byte(nil), px...)
	src := im.Samples()
	o.Label("codec=%s", c.Codec)
	o.Label("P=%d", im.P)
	o.Label("comps=%d", im.C)
	o.Label("class=%s", im.Class)
	o.Label("quality=%d0s", c.Quality/10)
	if im.W%8 != 0 || im.H%8 != 0 {
		o.Label("partial-block")
	}
	var stream []byte
	var err error
	if c.Codec == "baseline" {
		stream, err = baseline.Encode(px, im.W, im.H, im.C, c.Quality)
	} else {
		stream, err = extended.Encode(px, im.W, im.H, im.C, im.P, c.Quality)
	}
	if err != nil {
		o.Fail = core.Failf("encode-error", "%v", err)
		return
	}
	if !bytes.Equal(px, orig) {
		o.Fail = core.Failf("input-modified", "Encode changed the pixel buffer")
		return
	}
	j, err := walk.WalkJPEG(stream, false)
	if err != nil {
		o.Fail = core.Failf("header", "emitted stream is not parseable: %v", err)
		return
	}
	if j.NumSOF != 1 || j.X != im.W || j.Y != im.H || j.Nf != im.C || j.P != im.P {
		o.Fail = core.Failf("header", "frame header declares %dx%dx%d P=%d", j.X, j.Y, j.Nf, j.P)
		return
	}
	bounds := make([]float64, im.C)
	for i := 0; i < im.C; i++ {
		if j.HV[i] != 0x11 {
			// chroma subsampling adds interpolation error the statement's bound does not cover
			o.Fail = core.Failf("header", "component %d uses sampling %#02x; the encoder is specified as 4:4:4", i, j.HV[i])
			return
		}
		q, ok := j.DQT[int(j.Tq[i])]
		if !ok {
			o.Fail = core.Failf("header", "component %d refers to quantisation table %d which the stream does not define", i, j.Tq[i])
			return
		}
		bounds[i] = QuantBound(q)
	}
	var got []byte
	var w, h, comps, p int
	if c.Codec == "baseline" {
		got, w, h, comps, err = baseline.Decode(stream)
		p = 8
	} else {
		got, w, h, comps, p, err = extended.Decode(stream)
	}
	if err != nil {
		o.Fail = core.Failf("decode-error", "the matching decoder rejects the encoder's stream: %v", err)
		return
	}
	if w != im.W || h != im.H || comps != im.C || p != im.P {
		o.Fail = core.Failf("geometry", "decoder reports %dx%dx%d P=%d, source %dx%dx%d P=%d", w, h, comps, p, im.W, im.H, im.C, im.P)
		return
	}
	if len(got) != len(orig) {
		o.Fail = core.Failf("geometry", "decoded %d bytes, want %d", len(got), len(orig))
		return
	}
	dec := gen.Unpack(got, im.P)
	limit := make([]float64, im.C)
	if im.C == 1 {
		limit[0] = bounds[0] + 2
	} else {
		by, bcb, bcr := bounds[0], bounds[1], bounds[2]
		limit[0] = by + 1.402*bcr + 5
		limit[1] = by + 0.344136*bcb + 0.714136*bcr + 5
		limit[2] = by + 1.772*bcb + 5
	}
	worst := 0.0
	for i, v := range src {
		d := math.Abs(float64(dec[i] - v))
		if d > limit[i%im.C] {
			o.Fail = core.Failf("bound", "sample %d (x=%d y=%d c=%d): source %d decoded %d, |diff|=%.0f exceeds %.2f (quality %d)",
				i, (i/im.C)%im.W, i/im.C/im.W, i%im.C, v, dec[i], d, limit[i%im.C], c.Quality)
			return
		}
		if r := d / limit[i%im.C]; r > worst {
			worst = r
		}
		if c.Quality == 100 && im.C == 1 && im.P == 8 && d > 10 {
			o.Fail = core.Failf("bound", "quality 100 greyscale sample %d off by %.0f > 10", i, d)
			return
		}
	}
	for _, tb := range j.DHT() {
		if tb.Bits[16] > 0 {
			// the optimal table reached the 16-bit limit (the length-limiting step of K.2 was at work
			// or the tree was exactly that deep)
			o.Label("huffman-maxlen16")
			break
		}
	}
	if im.W*im.H >= 256*256 {
		o.Label("size>=256x256")
	}
	if worst > 0.25 {
		o.Label("tightness>25%%")
	}
	ac := false
	for _, sc := range j.Scans {
		if len(sc.ECS) > 2*((im.W+7)/8)*((im.H+7)/8)*im.C {
			ac = true
		}
	}
	blocks := ((im.W + 7) / 8) * ((im.H + 7) / 8)
	o.NonTrivial = gen.Distinct(src) >= 2 && ac && (blocks >= 2 || im.W%8 != 0 || im.H%8 != 0)
	return
}

func TestRapid(t *testing.T)  { core.RunRapid(t, ID, Gen, Check) }
func TestReplay(t *testing.T) { core.RunReplay(t, ID, &Case{}, Check) }

// TestSizes sweeps every size 1..33 x 1..33 (every partial 8x8 block shape) with a rotating
// quality so that every quality 1..100 is visited; sharded.
func TestSizes(t *testing.T) {
	shard, shards := core.EnvInt("VERIF_SHARD", 0), max(1, core.EnvInt("VERIF_SHARDS", 1))
	seed := core.EnvInt("VERIF_SEED", 1)
	per := 1
	if core.Thorough() {
		per = 10
	}
	n := 0
	for w := 1; w <= 33; w++ {
		for h := 1; h <= 33; h++ {
			n++
			if n%shards != shard {
				continue
			}
			for k := 0; k < per; k++ {
				q := (n*7+k*13+seed)%100 + 1
				variant := (n + k + seed) % 4
				im := &gen.Image{W: w, H: h, C: 1, P: 8, Class: classes[(n+k)%len(classes)], Seed: uint64(seed*100000 + n*16 + k)}
				codec := "baseline"
				switch variant {
				case 1:
					im.C = 3
				case 2:
					codec = "extended"
				case 3:
					codec, im.P = "extended", 12
				}
				core.Eval(t, ID, "exhaustive", &Case{Img: im, Quality: q, Codec: codec}, Check)
			}
		}
	}
	core.ExhaustiveDone("every size 1..33 x 1..33 (all partial 8x8 block shapes); qualities rotate over 1..100", 1089)
}

// TestLarge: large noise-like images (384..512 squared, the upper end of the explored range).
// Only these give the AC symbol statistics (thousands of blocks, every run/size symbol present
// with very unequal counts) that push the optimal Huffman tree beyond 16 bits, so that the
// K.2 length-limiting step decides which codes the stream carries.
func TestLarge(t *testing.T) {
	shard, shards := core.EnvInt("VERIF_SHARD", 0), max(1, core.EnvInt("VERIF_SHARDS", 1))
	seed := core.EnvInt("VERIF_SEED", 1)
	n := 48
	if core.Thorough() {
		n = 640
	}
	for k := 0; k < n; k++ {
		if k%shards != shard {
			continue
		}
		g := rapid.Custom(func(t *rapid.T) *Case {
			im := &gen.Image{W: rapid.IntRange(384, 512).Draw(t, "w"), H: rapid.IntRange(384, 512).Draw(t, "h"), C: 1, P: 8,
				Class: rapid.SampledFrom([]string{"noise", "noise", "noise", "nearedge", "sparse"}).Draw(t, "class"), Seed: rapid.Uint64().Draw(t, "seed")}
			c := &Case{Img: im, Quality: rapid.OneOf(rapid.IntRange(8, 100), rapid.SampledFrom([]int{50, 75, 90, 95})).Draw(t, "quality"), Codec: "baseline"}
			switch rapid.IntRange(0, 4).Draw(t, "variant") {
			case 1:
				im.C = 3
			case 2:
				c.Codec = "extended"
			case 3, 4:
				c.Codec, im.P = "extended", 12
			}
			return c
		})
		core.Eval(t, ID, "quota", g.Example(seed*1000+k), Check)
	}
}
