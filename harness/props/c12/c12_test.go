// C12 JPEG 2000 irreversible path: loss bounded by the quantisation steps declared in QCD,
// propagated through exact L1 synthesis gains of an independent inverse 9/7 transform.
package c12

import (
	"math"
	"testing"

	"pgregory.net/rapid"

	"verif/harness/core"
	"verif/harness/gen"
	"verif/harness/j2k"
	"verif/harness/ref/dwt97"
	"verif/harness/ref/walk"
)

const ID = "C12"

func TestMain(m *testing.M) { core.Main(m, ID) }

type Case struct {
	Img *gen.Image
	Cfg *j2k.Config
}

func maxDim() int {
	if core.Thorough() {
		return 96
	}
	return 64
}

func Gen(t *rapid.T) *Case {
	o := gen.ImageOpts{MaxDim: maxDim(), MaxArea: maxDim() * maxDim(), Comps: []int{1, 3}, PMin: 8, PMax: 16, Signed: true,
		Classes: []string{"noise", "noise", "twolevel", "gradient", "checker", "extremes", "sparse", "constant", "lpgain"}, LiteralMax: 16}
	im := gen.ImageGen(o).Draw(t, "img")
	im.P = rapid.SampledFrom([]int{8, 12, 16}).Draw(t, "P")
	if im.Pix != nil {
		lo, hi := im.MinVal(), im.MaxVal()
		for i, v := range im.Pix {
			if v < lo || v > hi {
				im.Pix[i] = lo + (v-lo)&(hi-lo)
			}
		}
	}
	cfg := &j2k.Config{Lossy: true, Layers: 1,
		Levels:  rapid.IntRange(0, 6).Draw(t, "levels"),
		CBW:     rapid.SampledFrom([]int{16, 32, 64}).Draw(t, "cbw"),
		CBH:     rapid.SampledFrom([]int{16, 32, 64}).Draw(t, "cbh"),
		Quality: rapid.OneOf(rapid.IntRange(1, 100), rapid.SampledFrom([]int{1, 50, 80, 99, 100})).Draw(t, "quality"),
		MCT:     rapid.Bool().Draw(t, "mct"),
		Prog:    rapid.IntRange(0, 4).Draw(t, "prog"),
	}
	return &Case{Img: im, Cfg: cfg}
}

var gainCache = map[[2]int]*dwt97.Gains1D{}

func gains(n, levels int) *dwt97.Gains1D {
	k := [2]int{n, levels}
	if g, ok := gainCache[k]; ok {
		return g
	}
	g := dwt97.ComputeGains1D(n, levels)
	gainCache[k] = g
	return g
}

// Allowance is the fixed rounding allowance on top of the quantisation bound: 2 LSB for the
// final rounding / level shift / colour rounding plus 2^(P-13) for single-precision
// arithmetic in up to six 2-D lifting stages on a 2^(P+2) dynamic range.
func Allowance(p int) float64 { return 2 + math.Ldexp(1, p-13) }

func Check(c *Case) (o core.Outcome) {
	im, cfg := c.Img, c.Cfg
	px := im.Bytes()
	src := im.Samples()
	o.Label("P=%d", im.P)
	o.Label("comps=%d", im.C)
	o.Label("levels=%d", cfg.Levels)
	o.Label("quality=%d0s", cfg.Quality/10)
	o.Label("class=%s", im.Class)
	if cfg.Quality >= 95 {
		o.Label("quality>=95")
	}
	if im.Signed {
		o.Label("signed")
	}
	stream, got, fail := j2k.RoundTrip(im, cfg, px)
	if fail != nil {
		o.Fail = fail
		return
	}
	j, err := walk.WalkJ2K(stream)
	if err != nil {
		o.Fail = core.Failf("header", "codestream not parseable: %v", err)
		return
	}
	if j.COD.Transform != 0 {
		o.Fail = core.Failf("header", "COD declares the reversible transform for an irreversible encode")
		return
	}
	L := j.COD.Levels
	if L != cfg.Levels {
		o.Label("levels-adjusted")
	}
	nb := 3*L + 1
	q := j.QCD
	step := make([]float64, nb)
	for b := 0; b < nb; b++ {
		var e, m int
		switch q.Style {
		case 2:
			if len(q.Exp) < nb {
				o.Fail = core.Failf("header", "QCD has %d step sizes for %d sub-bands", len(q.Exp), nb)
				return
			}
			e, m = q.Exp[b], q.Mant[b]
		case 1:
			nbLevel := L
			if b > 0 {
				nbLevel = L - ((b-1)/3 + 1) + 1
			}
			e, m = q.Exp[0]-L+nbLevel, q.Mant[0]
		default:
			o.Fail = core.Failf("header", "QCD style %d in an irreversible stream", q.Style)
			return
		}
		rb := im.P + dwt97.BandLog2Gain(b)
		step[b] = math.Ldexp(1+float64(m)/2048, rb-e)
	}
	active := false
	for _, s := range step {
		if s > 1 {
			active = true
		}
	}
	if active {
		o.Label("quantiser-active")
	}
	o.NonTrivial = active && gen.Distinct(src) >= 2
	if len(got) != len(px) {
		o.Fail = core.Failf("mismatch", "decoded %d bytes, want %d", len(got), len(px))
		return
	}
	gx, gy := gains(im.W, L), gains(im.H, L)
	// colour propagation factors (inverse ICT rows, absolute values)
	factor := []float64{1, 1, 1, 1}
	if im.C == 3 && j.COD.MCT == 1 {
		factor = []float64{1 + 1.402, 1 + 0.344136 + 0.714136, 1 + 1.772}
		o.Label("ict")
	}
	dec := gen.Unpack(got, im.P)
	lo, hi := im.MinVal(), im.MaxVal()
	allow := Allowance(im.P)
	worst := 0.0
	for y := 0; y < im.H; y++ {
		for x := 0; x < im.W; x++ {
			e := 0.0
			for b := 0; b < nb; b++ {
				e += step[b] * dwt97.BandGain(gx, gy, b, x, y)
			}
			for ch := 0; ch < im.C; ch++ {
				i := (y*im.W+x)*im.C + ch
				d := dec[i]
				if im.Signed && d >= 1<<uint(im.P-1) {
					d -= 1 << uint(im.P)
				}
				if d < lo || d > hi {
					o.Fail = core.Failf("range", "decoded sample %d = %d outside the declared range [%d,%d]", i, d, lo, hi)
					labelMagnitude(&o, im, src, L, step, j.COD.MCT == 1)
					return
				}
				diff := math.Abs(float64(d - src[i]))
				bound := e*factor[ch] + allow
				if diff > bound {
					o.Fail = core.Failf("bound", "sample (x=%d,y=%d,c=%d): source %d decoded %d, |diff|=%.0f exceeds bound %.2f (quantisation %.2f x colour %.3f + allowance %.2f); levels=%d quality=%d",
						x, y, ch, src[i], d, diff, bound, e, factor[ch], allow, L, cfg.Quality)
					labelMagnitude(&o, im, src, L, step, j.COD.MCT == 1)
					return
				}
				if bound > 0 && diff/bound > worst {
					worst = diff / bound
				}
			}
		}
	}
	switch {
	case worst > 0.5:
		o.Label("tightness>50%%")
	case worst > 0.1:
		o.Label("tightness>10%%")
	}
	return
}

// labelMagnitude is evaluated for failing cases only. It runs the reference forward transform
// (level shift, ICT when declared, L-level 9/7 analysis in float64) on the source and labels the
// case "t1-magnitude>=2^25" when some coefficient divided by its declared step size reaches 2^25:
// the library's tier-1 coder keeps six fractional bits below the quantised magnitude, so such a
// value does not fit its int32 (known finding KF-C12-2). The comparison leaves 2^-12 relative
// room for the library's single-precision arithmetic.
func labelMagnitude(o *core.Outcome, im *gen.Image, src []int, L int, step []float64, ict bool) {
	if MaxQuantisedMagnitude(im, src, L, step, ict) >= math.Ldexp(1, 25)*(1-math.Ldexp(1, -12)) {
		o.Label("t1-magnitude>=2^25")
	}
}

// MaxQuantisedMagnitude returns max over sub-bands b and coefficients c of |c| / step[b].
func MaxQuantisedMagnitude(im *gen.Image, src []int, L int, step []float64, ict bool) float64 {
	w, h := im.W, im.H
	planes := make([][]float64, im.C)
	shift := 0.0
	if !im.Signed {
		shift = math.Ldexp(1, im.P-1)
	}
	for ch := range planes {
		planes[ch] = make([]float64, w*h)
		for i := 0; i < w*h; i++ {
			planes[ch][i] = float64(src[i*im.C+ch]) - shift
		}
	}
	if ict && im.C == 3 {
		for i := 0; i < w*h; i++ {
			r, g, b := planes[0][i], planes[1][i], planes[2][i]
			planes[0][i] = 0.299*r + 0.587*g + 0.114*b
			planes[1][i] = -0.168736*r - 0.331264*g + 0.5*b
			planes[2][i] = 0.5*r - 0.418688*g - 0.081312*b
		}
	}
	worst := 0.0
	note := func(v, st float64) {
		if q := math.Abs(v) / st; q > worst {
			worst = q
		}
	}
	for _, pl := range planes {
		cw, chh := w, h // current LL size, stored in the top-left of a w-stride buffer
		for lev := 1; lev <= L; lev++ {
			lw, lh := (cw+1)/2, (chh+1)/2
			// rows
			for y := 0; y < chh; y++ {
				lo, hi := dwt97.Forward1D(pl[y*w : y*w+cw])
				copy(pl[y*w:], lo)
				copy(pl[y*w+lw:], hi)
			}
			// columns
			col := make([]float64, chh)
			for x := 0; x < cw; x++ {
				for y := 0; y < chh; y++ {
					col[y] = pl[y*w+x]
				}
				lo, hi := dwt97.Forward1D(col)
				for y := range lo {
					pl[y*w+x] = lo[y]
				}
				for y := range hi {
					pl[(lh+y)*w+x] = hi[y]
				}
			}
			base := 1 + 3*(L-lev) // HL, LH, HH of this level
			for y := 0; y < chh; y++ {
				for x := 0; x < cw; x++ {
					switch {
					case x >= lw && y < lh:
						note(pl[y*w+x], step[base])
					case x < lw && y >= lh:
						note(pl[y*w+x], step[base+1])
					case x >= lw && y >= lh:
						note(pl[y*w+x], step[base+2])
					}
				}
			}
			cw, chh = lw, lh
		}
		for y := 0; y < chh; y++ {
			for x := 0; x < cw; x++ {
				note(pl[y*w+x], step[0])
			}
		}
	}
	return worst
}

func TestRapid(t *testing.T)  { core.RunRapid(t, ID, Gen, Check) }
func TestReplay(t *testing.T) { core.RunReplay(t, ID, &Case{}, Check) }

// TestBig: the free generator's cases at sizes where a dimension or the sample count crosses a
// power of two (255..257, 511..513, 1023..1025 with a short other side; both sides 250..300).
// The exact synthesis gains are computed for these sizes too (a few hundred milliseconds each).
func TestBig(t *testing.T) {
	g := rapid.Custom(func(t *rapid.T) *Case {
		c := Gen(t)
		d := gen.BigGeometry().Draw(t, "big")
		for k := range d {
			if d[k] > 1100 {
				d[k] = 1023 + d[k]%3
			}
		}
		c.Img.Resize(d[0], d[1])
		return c
	})
	core.RunSharded(t, ID, 24, 400, g, Check)
}
