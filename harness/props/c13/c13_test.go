// C13 JPEG Lossless streams and decoders conform to T.81: differential test against the
// independent Annex H codec in ref/t81, in both directions.
package c13

import (
	"bytes"
	"testing"

	dcodec "github.com/cocosip/go-dicom/pkg/imaging/codec"
	"github.com/cocosip/go-dicom/pkg/dicom/transfer"
	"github.com/cocosip/go-dicom/pkg/imaging/imagetypes"
	"github.com/cocosip/go-dicom-codecs/codec"
	"github.com/cocosip/go-dicom-codecs/jpeg/lossless"
	"github.com/cocosip/go-dicom-codecs/jpeg/lossless14sv1"
	"pgregory.net/rapid"

	"verif/harness/core"
	"verif/harness/gen"
	"verif/harness/ref/t81"
	"verif/harness/ref/walk"
)

const ID = "C13"

func TestMain(m *testing.M) { core.Main(m, ID) }

// ExtraSeg is an APPn/COM segment placed before SOF3 by the reference encoder.
type ExtraSeg struct {
	Marker byte // 0xE0..0xEF or 0xFE
	Len    int
	Fill   byte
}

// Case describes one differential experiment.
type Case struct {
	Img *gen.Image
	// Dir "A": library encoder -> reference decoder. Enc: 0..7 lossless.Encode(predictor), 8 SV1 package,
	// 9 registry codec .57, 10 registry codec .70.
	// Dir "B": reference encoder -> library decoder. Pred 1..7; SV1 selects the SV1 decoder (Pred is 1 then).
	Dir  string
	Enc  int `json:",omitempty"`
	Pred int `json:",omitempty"`
	SV1  bool `json:",omitempty"`
	// direction B stream layout
	Td          []int     `json:",omitempty"`
	TableKind   [4]string `json:",omitempty"` // std | stddesc | opt | rand
	RandLens    [4][]int  `json:",omitempty"` // code length per category 0..16 for kind "rand"
	RandDesc    bool      `json:",omitempty"`
	Extra       []ExtraSeg `json:",omitempty"`
	DHTAfterSOF bool      `json:",omitempty"`
	OneDHT      bool      `json:",omitempty"`
	IDStyle     int       `json:",omitempty"` // 0: 1..C, 1: 0..C-1, 2: 'R','G','B'
}

var classes = []string{"noise", "twolevel", "extremes", "altext", "cat16", "runs", "gradient", "constant", "sparse"}

func imgOpts() gen.ImageOpts {
	o := gen.ImageOpts{MaxDim: 48, MaxArea: 48 * 48, Comps: []int{1, 3}, PMin: 2, PMax: 16, Classes: classes, LiteralMax: 48}
	if core.Thorough() {
		o.MaxDim, o.MaxArea = 300, 300*100
	}
	return o
}

// randLens draws a prefix-free length assignment for 17 categories that leaves the all-ones
// code word unused: 18 leaves by random splitting, the last (longest) leaf is dropped.
func randLens(t *rapid.T) []int {
	leaves := []int{1, 1}
	for len(leaves) < 18 {
		i := rapid.IntRange(0, len(leaves)-1).Draw(t, "split")
		for k := 0; k < len(leaves) && leaves[i] >= 16; k++ {
			i = (i + 1) % len(leaves)
		}
		if leaves[i] >= 16 {
			break
		}
		l := leaves[i] + 1
		leaves[i] = l
		leaves = append(leaves, l)
	}
	// sort ascending, drop one longest
	for i := range leaves {
		for j := i + 1; j < len(leaves); j++ {
			if leaves[j] < leaves[i] {
				leaves[i], leaves[j] = leaves[j], leaves[i]
			}
		}
	}
	leaves = leaves[:17]
	perm := rapid.Permutation([]int{0, 1, 2, 3, 4, 5, 6, 7, 8, 9, 10, 11, 12, 13, 14, 15, 16}).Draw(t, "perm")
	out := make([]int, 17)
	for i, sym := range perm {
		out[sym] = leaves[i]
	}
	return out
}

func genB(t *rapid.T, c *Case) {
	c.Dir = "B"
	c.SV1 = rapid.IntRange(0, 3).Draw(t, "sv1") == 0
	c.Pred = rapid.IntRange(1, 7).Draw(t, "pred")
	if c.SV1 {
		c.Pred = 1
	}
	c.Td = make([]int, c.Img.C)
	for i := range c.Td {
		c.Td[i] = rapid.SampledFrom([]int{0, 0, 1, 2, 3}).Draw(t, "td")
	}
	for _, d := range c.Td {
		if c.TableKind[d] != "" {
			continue
		}
		c.TableKind[d] = rapid.SampledFrom([]string{"std", "stddesc", "opt", "opt", "rand"}).Draw(t, "kind")
		if c.TableKind[d] == "rand" {
			c.RandLens[d] = randLens(t)
		}
	}
	c.RandDesc = rapid.Bool().Draw(t, "desc")
	n := rapid.SampledFrom([]int{0, 0, 1, 2}).Draw(t, "nextra")
	for i := 0; i < n; i++ {
		c.Extra = append(c.Extra, ExtraSeg{
			Marker: rapid.SampledFrom([]byte{0xE0, 0xE1, 0xE2, 0xEE, 0xEF, 0xFE}).Draw(t, "m"),
			Len:    rapid.SampledFrom([]int{0, 1, 5, 14, 300}).Draw(t, "len"),
			Fill:   rapid.SampledFrom([]byte{0, 0x4A, 0xFF, 0xC3, 0xDA}).Draw(t, "fill"),
		})
	}
	c.DHTAfterSOF = rapid.Bool().Draw(t, "after")
	c.OneDHT = rapid.Bool().Draw(t, "one")
	c.IDStyle = rapid.IntRange(0, 2).Draw(t, "ids")
}

func Gen(t *rapid.T) *Case {
	c := &Case{Img: gen.ImageGen(imgOpts()).Draw(t, "img")}
	if rapid.Bool().Draw(t, "dirA") {
		c.Dir = "A"
		c.Enc = rapid.IntRange(0, 10).Draw(t, "enc")
		return c
	}
	genB(t, c)
	return c
}

func frameInfo(im *gen.Image) *imagetypes.FrameInfo {
	ba := 8
	if im.P > 8 {
		ba = 16
	}
	pi := "MONOCHROME2"
	if im.C == 3 {
		pi = "RGB"
	}
	return &imagetypes.FrameInfo{Width: uint16(im.W), Height: uint16(im.H), BitsAllocated: uint16(ba), BitsStored: uint16(im.P),
		HighBit: uint16(im.P - 1), SamplesPerPixel: uint16(im.C), PhotometricInterpretation: pi}
}

func viaCodec(ts *transfer.Syntax, im *gen.Image, px []byte) ([]byte, error) {
	cd, ok := dcodec.GetGlobalRegistry().GetCodec(ts)
	if !ok {
		return nil, core.Failf("harness", "codec %s not registered", ts.UID().UID())
	}
	info := frameInfo(im)
	src := codec.NewTestPixelData(info)
	_ = src.AddFrame(px)
	dst := codec.NewTestPixelData(info)
	if err := cd.Encode(src, dst, nil); err != nil {
		return nil, err
	}
	f, _ := dst.GetFrame(0)
	return f, nil
}

func compare(o *core.Outcome, kind string, got []int, src []int) {
	if len(got) != len(src) {
		o.Fail = core.Failf(kind, "sample count %d != %d", len(got), len(src))
		return
	}
	for i := range src {
		if got[i] != src[i] {
			o.Fail = core.Failf(kind, "sample %d: got %d want %d", i, got[i], src[i])
			return
		}
	}
}

func Check(c *Case) (o core.Outcome) {
	im := c.Img
	src := im.Samples()
	o.NonTrivial = im.W >= 2 && im.H >= 2 && gen.Distinct(src) >= 2
	o.Label("dir=%s", c.Dir)
	o.Label("P=%d", im.P)
	o.Label("comps=%d", im.C)
	if c.Dir == "A" {
		o.Label("enc=%d", c.Enc)
		px := im.Bytes()
		var stream []byte
		var err error
		switch {
		case c.Enc <= 7:
			stream, err = lossless.Encode(px, im.W, im.H, im.C, im.P, c.Enc)
		case c.Enc == 8:
			stream, err = lossless14sv1.Encode(px, im.W, im.H, im.C, im.P)
		case c.Enc == 9:
			stream, err = viaCodec(transfer.JPEGLossless, im, px)
		default:
			stream, err = viaCodec(transfer.JPEGLosslessSV1, im, px)
		}
		if err != nil {
			o.Fail = core.Failf("encode-error", "%v", err)
			return
		}
		got, info, err := t81.Decode(stream)
		if err != nil {
			o.Fail = core.Failf("ref-decode-error", "independent T.81 decoder rejects the library's stream: %v", err)
			return
		}
		o.Label("streamSs=%d", got.Pred)
		if got.W != im.W || got.H != im.H || got.C != im.C || got.P != im.P {
			o.Fail = core.Failf("header", "SOF3 declares %dx%dx%d P=%d, source is %dx%dx%d P=%d", got.W, got.H, got.C, got.P, im.W, im.H, im.C, im.P)
			return
		}
		if c.Enc >= 1 && c.Enc <= 7 && got.Pred != c.Enc {
			o.Fail = core.Failf("header", "SOS Ss=%d, requested predictor %d", got.Pred, c.Enc)
			return
		}
		if c.Enc >= 8 && got.Pred != 1 {
			o.Fail = core.Failf("header", "SV1 / .57 stream declares predictor %d", got.Pred)
			return
		}
		if !info.SawEOI {
			o.Fail = core.Failf("header", "no EOI after the scan")
			return
		}
		compare(&o, "ref-mismatch", got.Samples, src)
		return
	}
	// direction B
	o.Label("pred=%d", c.Pred)
	o.Label("sv1=%v", c.SV1)
	ri := &t81.Image{W: im.W, H: im.H, C: im.C, P: im.P, Pred: c.Pred, Samples: src}
	opts := t81.EncodeOpts{Td: c.Td, DHTAfterSOF: c.DHTAfterSOF, OneDHT: c.OneDHT}
	switch c.IDStyle {
	case 1:
		for i := 0; i < im.C; i++ {
			opts.CompIDs = append(opts.CompIDs, byte(i))
		}
	case 2:
		opts.CompIDs = []byte{'R', 'G', 'B'}[:im.C]
	}
	o.Label("ids=%d", c.IDStyle)
	hist := t81.CategoryHistogram(ri, c.Td)
	maxTd, maxLen := 0, 0
	for _, d := range c.Td {
		if opts.Tables[d] != nil {
			continue
		}
		var err error
		switch c.TableKind[d] {
		case "std":
			opts.Tables[d], err = t81.FromLengths(t81.StdLengths, false)
		case "stddesc":
			opts.Tables[d], err = t81.FromLengths(t81.StdLengths, true)
		case "opt":
			opts.Tables[d], err = t81.FromLengths(t81.OptimalLengths(hist[d]), false)
		case "rand":
			opts.Tables[d], err = t81.FromLengths(c.RandLens[d], c.RandDesc)
		default:
			err = core.Failf("harness", "table kind %q", c.TableKind[d])
		}
		if err != nil {
			panic("harness: reference table construction failed: " + err.Error())
		}
		o.Label("table=%s", c.TableKind[d])
		maxTd = max(maxTd, d)
		maxLen = max(maxLen, opts.Tables[d].MaxLen())
	}
	o.Label("maxTd=%d", maxTd)
	if maxLen == 16 {
		o.Label("len16")
	}
	if c.DHTAfterSOF {
		o.Label("dht-after-sof")
	}
	if len(c.Extra) > 0 {
		o.Label("extra-segments")
	}
	for _, e := range c.Extra {
		opts.Extra = append(opts.Extra, t81.Segment{Marker: e.Marker, Payload: bytes.Repeat([]byte{e.Fill}, e.Len)})
	}
	stream, err := t81.Encode(ri, opts)
	if err != nil {
		panic("harness: reference encoder failed: " + err.Error())
	}
	// the reference stream must be decodable by the reference decoder (harness self-check)
	if back, _, err := t81.Decode(stream); err != nil || len(back.Samples) != len(src) {
		panic("harness: reference decoder rejects reference stream")
	}
	if j, err := walk.WalkJPEG(stream, false); err != nil {
		panic("harness: walker rejects reference stream: " + err.Error())
	} else if j.Scans[0].FFCount > 0 {
		o.Label("stuffed")
	}
	var got []byte
	var w, h, comps, p int
	if c.SV1 {
		got, w, h, comps, p, err = lossless14sv1.Decode(stream)
	} else {
		got, w, h, comps, p, err = lossless.Decode(stream)
	}
	if err != nil {
		o.Fail = core.Failf("decode-error", "library rejects a conformant stream: %v", err)
		return
	}
	if w != im.W || h != im.H || comps != im.C || p != im.P {
		o.Fail = core.Failf("geometry", "decoder reports %dx%dx%d P=%d, source %dx%dx%d P=%d", w, h, comps, p, im.W, im.H, im.C, im.P)
		return
	}
	want := im.Bytes()
	if len(got) != len(want) {
		o.Fail = core.Failf("mismatch", "decoded %d bytes, want %d", len(got), len(want))
		return
	}
	compare(&o, "mismatch", gen.Unpack(got, im.P), src)
	return
}

func TestRapid(t *testing.T)  { core.RunRapid(t, ID, Gen, Check) }
func TestReplay(t *testing.T) { core.RunReplay(t, ID, &Case{}, Check) }

func TestQuota(t *testing.T) {
	small := func() gen.ImageOpts { o := imgOpts(); o.MaxDim, o.MaxArea = 16, 128; return o }
	q := map[string]*rapid.Generator[*Case]{}
	for pred := 1; pred <= 7; pred++ {
		pred := pred
		q["B-pred"+string(rune('0'+pred))] = rapid.Custom(func(t *rapid.T) *Case {
			c := &Case{Img: gen.ImageGen(small()).Draw(t, "img")}
			genB(t, c)
			c.SV1, c.Pred = false, pred
			return c
		})
	}
	q["B-td3"] = rapid.Custom(func(t *rapid.T) *Case {
		c := &Case{Img: gen.ImageGen(small()).Draw(t, "img")}
		genB(t, c)
		c.Td[len(c.Td)-1] = 3
		if c.TableKind[3] == "" {
			c.TableKind[3] = "opt"
		}
		return c
	})
	q["B-rand16"] = rapid.Custom(func(t *rapid.T) *Case {
		o := small()
		o.PMin, o.PMax = 16, 16
		o.Classes = []string{"noise", "cat16"}
		c := &Case{Img: gen.ImageGen(o).Draw(t, "img")}
		genB(t, c)
		for _, d := range c.Td {
			c.TableKind[d] = "rand"
			// maximally skewed lengths: 1,2,...,16,16 minus the reserved all-ones word
			l := []int{1, 2, 3, 4, 5, 6, 7, 8, 9, 10, 11, 12, 13, 14, 15, 16, 16}
			perm := rapid.Permutation(l).Draw(t, "lens")
			// the dropped leaf must be a longest one: replace one 16 by keeping 17 leaves 1..16,16 -> uses all-ones; shift instead
			for i := range perm {
				if perm[i] < 16 {
					perm[i]++
				}
			}
			c.RandLens[d] = fixKraft(perm)
		}
		return c
	})
	core.RunQuota(t, ID, q, Check)
}

// fixKraft lengthens codes until the Kraft sum leaves room for the reserved all-ones word.
func fixKraft(l []int) []int {
	for {
		sum := 0
		for _, v := range l {
			sum += 1 << uint(16-v)
		}
		if sum <= 1<<16-1 {
			return l
		}
		for i := range l {
			if l[i] < 16 {
				l[i]++
				break
			}
		}
	}
}

// TestBig: the free generator's cases at sizes where a dimension or the sample count crosses a
// power of two (255..257, 511..513, 1023..1025, 4095..4097 with a short other side; both sides
// 250..300, i.e. more than 2^16 samples).
func TestBig(t *testing.T) {
	g := rapid.Custom(func(t *rapid.T) *Case {
		c := Gen(t)
		d := gen.BigGeometry().Draw(t, "big")
		c.Img.Resize(d[0], d[1])
		return c
	})
	core.RunSharded(t, ID, 24, 600, g, Check)
}
