package c13

import (
	"testing"

	"pgregory.net/rapid"

	"verif/harness/core"
)

// FuzzProp is the coverage-guided extra of the thorough tier: the fuzz engine's byte stream
// drives the same generator as TestRapid (rapid.MakeFuzz), and the same check decides. Not
// seedable; bounded by -fuzztime; a failure is written as a replayable case by core.Eval before
// the target fails.
func FuzzProp(f *testing.F) {
	f.Fuzz(rapid.MakeFuzz(func(t *rapid.T) {
		core.Eval(t, ID, "fuzz", Gen(t), Check)
	}))
}
