// C14 JPEG-LS streams and decoders conform to ITU-T T.87: differential test against the
// independent decoder in ref/t87, cross-package agreement, and the Annex H.3 vector.
package c14

import (
	"bytes"
	"testing"

	"github.com/cocosip/go-dicom-codecs/jpegls/lossless"
	"github.com/cocosip/go-dicom-codecs/jpegls/nearlossless"
	"pgregory.net/rapid"

	"verif/harness/core"
	"verif/harness/gen"
	"verif/harness/jls"
	"verif/harness/ref/t87"
)

const ID = "C14"

func TestMain(m *testing.M) { core.Main(m, ID) }

// Case: Near < 0 selects the lossless package (with the NEAR=0 cross checks), Near >= 0 the
// near-lossless package with that NEAR.
type Case struct {
	Img  *gen.Image
	Near int
}

func Gen(t *rapid.T) *Case {
	p := rapid.IntRange(2, 16).Draw(t, "P")
	near := -1
	if rapid.IntRange(0, 2).Draw(t, "pkg") > 0 {
		near = jls.NearGen(p, true).Draw(t, "near")
	}
	im := jls.ImageGen(near).Draw(t, "img")
	im.P = p
	if im.Pix != nil {
		for i, v := range im.Pix {
			im.Pix[i] = v & (1<<uint(p) - 1)
		}
	}
	return &Case{Img: im, Near: near}
}

func sameSamples(kind, what string, got []int, want []int) *core.Failure {
	if len(got) != len(want) {
		return core.Failf(kind, "%s: %d samples, want %d", what, len(got), len(want))
	}
	for i := range want {
		if got[i] != want[i] {
			return core.Failf(kind, "%s: sample %d is %d, want %d", what, i, got[i], want[i])
		}
	}
	return nil
}

func refDecode(o *core.Outcome, stream []byte, im *gen.Image, near int) *t87.Image {
	ri, err := t87.Decode(stream)
	if err != nil {
		o.Fail = core.Failf("ref-decode-error", "independent T.87 decoder rejects the stream: %v", err)
		return nil
	}
	if ri.W != im.W || ri.H != im.H || ri.C != im.C || ri.P != im.P || ri.Near != near {
		o.Fail = core.Failf("header", "stream declares %dx%dx%d P=%d NEAR=%d, encoder was given %dx%dx%d P=%d NEAR=%d",
			ri.W, ri.H, ri.C, ri.P, ri.Near, im.W, im.H, im.C, im.P, near)
		return nil
	}
	st := ri.Stats
	if !st.EndsEOI {
		o.Fail = core.Failf("header", "no EOI directly after the entropy-coded data")
		return nil
	}
	if st.Escapes > 0 {
		o.Label("escape-code")
	}
	if st.Resets > 0 {
		o.Label("context-reset")
	}
	if st.Interrupt0 > 0 {
		o.Label("interrupt-type0")
	}
	if st.Interrupt1 > 0 {
		o.Label("interrupt-type1")
	}
	if st.Runs > 0 {
		o.Label("run-mode")
	}
	if st.StuffedFF > 0 {
		o.Label("stuffed")
	}
	return ri
}

func Check(c *Case) (o core.Outcome) {
	im := c.Img
	px := im.Bytes()
	src := im.Samples()
	o.NonTrivial = jls.HasRunOrJump(im)
	o.Label("P=%d", im.P)
	o.Label("comps=%d", im.C)
	o.Label("class=%s", im.Class)
	if c.Near < 0 {
		o.Label("pkg=lossless")
		s1, err := lossless.Encode(px, im.W, im.H, im.C, im.P)
		if err != nil {
			o.Fail = core.Failf("encode-error", "lossless: %v", err)
			return
		}
		ri := refDecode(&o, s1, im, 0)
		if ri == nil {
			return
		}
		if o.Fail = sameSamples("ref-mismatch", "T.87 decode of the lossless stream vs source", ri.Samples, src); o.Fail != nil {
			return
		}
		s2, err := nearlossless.Encode(px, im.W, im.H, im.C, im.P, 0)
		if err != nil {
			o.Fail = core.Failf("encode-error", "nearlossless NEAR=0: %v", err)
			return
		}
		if !bytes.Equal(s1, s2) {
			i := 0
			for i < len(s1) && i < len(s2) && s1[i] == s2[i] {
				i++
			}
			o.Fail = core.Failf("encoders-differ", "lossless.Encode and nearlossless.Encode(NEAR=0) differ at byte %d (lengths %d, %d)", i, len(s1), len(s2))
			return
		}
		d1, w, h, cc, p, near, err := nearlossless.Decode(s1)
		if err != nil || w != im.W || h != im.H || cc != im.C || p != im.P || near != 0 {
			o.Fail = core.Failf("cross-decode", "nearlossless.Decode of a lossless stream: err=%v %dx%dx%d P=%d NEAR=%d", err, w, h, cc, p, near)
			return
		}
		if o.Fail = sameSamples("cross-decode", "nearlossless.Decode of the lossless stream", gen.Unpack(d1, im.P), src); o.Fail != nil {
			return
		}
		d2, w, h, cc, p, err := lossless.Decode(s2)
		if err != nil || w != im.W || h != im.H || cc != im.C || p != im.P {
			o.Fail = core.Failf("cross-decode", "lossless.Decode of a NEAR=0 stream: err=%v %dx%dx%d P=%d", err, w, h, cc, p)
			return
		}
		o.Fail = sameSamples("cross-decode", "lossless.Decode of the NEAR=0 stream", gen.Unpack(d2, im.P), src)
		return
	}
	o.Label("pkg=near")
	mx := jls.MaxNear(im.P)
	switch {
	case c.Near == 0:
		o.Label("near=0")
	case c.Near <= 3:
		o.Label("near=1-3")
	case c.Near == mx:
		o.Label("near=max")
	default:
		o.Label("near=mid")
	}
	if t1, t2, t3, _, _, _ := t87.Defaults(1<<uint(im.P)-1, c.Near); t1 == c.Near+1 || t2 == t1 || t3 == t2 {
		o.Label("threshold-clamped") // some default threshold hit its CLAMP bound (T.87 Figure C.3)
	}
	s, err := nearlossless.Encode(px, im.W, im.H, im.C, im.P, c.Near)
	if err != nil {
		o.Fail = core.Failf("encode-error", "nearlossless: %v", err)
		return
	}
	ri := refDecode(&o, s, im, c.Near)
	if ri == nil {
		return
	}
	d, w, h, cc, p, near, err := nearlossless.Decode(s)
	if err != nil || w != im.W || h != im.H || cc != im.C || p != im.P || near != c.Near {
		o.Fail = core.Failf("decode-error", "nearlossless.Decode: err=%v %dx%dx%d P=%d NEAR=%d", err, w, h, cc, p, near)
		return
	}
	lib := gen.Unpack(d, im.P)
	if o.Fail = sameSamples("ref-mismatch", "T.87 decode vs nearlossless.Decode of the same stream", ri.Samples, lib); o.Fail != nil {
		return
	}
	if c.Near == 0 {
		o.Fail = sameSamples("ref-mismatch", "T.87 decode of the NEAR=0 stream vs source", ri.Samples, src)
	}
	return
}

func TestRapid(t *testing.T)  { core.RunRapid(t, ID, Gen, Check) }
func TestReplay(t *testing.T) { core.RunReplay(t, ID, &Case{}, Check) }

// TestH3 checks the finite vector of T.87 Annex H.3 in both directions.
func TestH3(t *testing.T) {
	type vec struct{ Encoder string }
	check := func(v vec) (o core.Outcome) {
		o.NonTrivial = true
		o.Label("H.3")
		raw := make([]byte, 16)
		for i, s := range t87.H3Image {
			raw[i] = byte(s)
		}
		var enc []byte
		var err error
		if v.Encoder == "lossless" {
			enc, err = lossless.Encode(raw, 4, 4, 1, 8)
		} else {
			enc, err = nearlossless.Encode(raw, 4, 4, 1, 8, 0)
		}
		if err != nil {
			o.Fail = core.Failf("encode-error", "%v", err)
			return
		}
		if !bytes.Equal(enc, t87.H3Stream) {
			o.Fail = core.Failf("h3-vector", "%s encoder output for the H.3 image differs from the published stream: % X", v.Encoder, enc)
			return
		}
		d, _, _, _, _, err := lossless.Decode(t87.H3Stream)
		if err != nil || !bytes.Equal(d, raw) {
			o.Fail = core.Failf("h3-vector", "lossless.Decode of the published H.3 stream: err=%v", err)
			return
		}
		d2, _, _, _, _, _, err := nearlossless.Decode(t87.H3Stream)
		if err != nil || !bytes.Equal(d2, raw) {
			o.Fail = core.Failf("h3-vector", "nearlossless.Decode of the published H.3 stream: err=%v", err)
		}
		return
	}
	// the reference decoder itself must reproduce the vector, else the harness is at fault
	if ri, err := t87.Decode(t87.H3Stream); err != nil || sameSamples("x", "x", ri.Samples, t87.H3Image) != nil {
		t.Fatalf("harness: reference decoder fails the H.3 vector")
	}
	core.Eval(t, ID, "exhaustive", vec{"lossless"}, check)
	core.Eval(t, ID, "exhaustive", vec{"nearlossless"}, check)
	core.ExhaustiveDone("T.87 Annex H.3 vector (encode to published bytes with both encoders, decode with both decoders)", 2)
}

// TestNearSweep visits every (P, NEAR) pair.
func TestNearSweep(t *testing.T) {
	shard, shards := core.EnvInt("VERIF_SHARD", 0), max(1, core.EnvInt("VERIF_SHARDS", 1))
	seed := uint64(core.EnvInt("VERIF_SEED", 1))
	per := 1
	if core.Thorough() {
		per = 4
	}
	classes := []string{"noise", "nearruns", "nearedge", "runs"}
	idx := 0
	for p := 2; p <= 16; p++ {
		for near := 0; near <= jls.MaxNear(p); near++ {
			idx++
			if idx%shards != shard {
				continue
			}
			for k := 0; k < per; k++ {
				im := &gen.Image{W: 9 + (near+k)%7, H: 5 + k, C: 1 + 2*((near+p+k)%2), P: p, Class: classes[(k+near)%len(classes)],
					Seed: seed*104729 + uint64(p*1000+near*4+k), Par: near}
				core.Eval(t, ID, "exhaustive", &Case{Img: im, Near: near}, Check)
			}
		}
	}
	core.ExhaustiveDone("every (P, NEAR) pair with P in 2..16 and NEAR in 0..min(255,MAXVAL/2) visited", 2250)
}

func TestQuota(t *testing.T) {
	q := map[string]*rapid.Generator[*Case]{
		"lossless-everyP-twolevel": rapid.Custom(func(t *rapid.T) *Case {
			im := &gen.Image{W: rapid.IntRange(1, 12).Draw(t, "w"), H: rapid.IntRange(1, 8).Draw(t, "h"), C: rapid.SampledFrom([]int{1, 3}).Draw(t, "c"),
				P: rapid.IntRange(2, 16).Draw(t, "P"), Class: rapid.SampledFrom([]string{"twolevel", "altext", "noise"}).Draw(t, "cl"), Seed: rapid.Uint64().Draw(t, "seed")}
			return &Case{Img: im, Near: -1}
		}),
		"context-reset": rapid.Custom(func(t *rapid.T) *Case {
			p := rapid.IntRange(2, 16).Draw(t, "P")
			im := &gen.Image{W: 64, H: 40, C: 1, P: p, Class: "noise", Seed: rapid.Uint64().Draw(t, "seed")}
			return &Case{Img: im, Near: rapid.SampledFrom([]int{-1, 0, 1, jls.MaxNear(p)}).Draw(t, "near")}
		}),
	}
	core.RunQuota(t, ID, q, Check)
}

// TestBig: the free generator's cases at sizes where a dimension or the sample count crosses a
// power of two (255..257, 511..513, 1023..1025, 4095..4097 with a short other side; both sides
// 250..300, i.e. more than 2^16 samples).
func TestBig(t *testing.T) {
	g := rapid.Custom(func(t *rapid.T) *Case {
		c := Gen(t)
		d := gen.BigGeometry().Draw(t, "big")
		c.Img.Resize(d[0], d[1])
		return c
	})
	core.RunSharded(t, ID, 24, 600, g, Check)
}
