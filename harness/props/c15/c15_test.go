// C15 JPEG DCT streams and decoders agree with an independent JPEG implementation
// (Go's image/jpeg as decoder and encoder, plus the reference encoder ref/dctenc).
package c15

import (
	"bytes"
	"image"
	"image/color"
	"image/jpeg"
	"testing"

	"github.com/cocosip/go-dicom-codecs/jpeg/baseline"
	"github.com/cocosip/go-dicom-codecs/jpeg/extended"
	"pgregory.net/rapid"

	"verif/harness/core"
	"verif/harness/gen"
	"verif/harness/ref/dctenc"
)

const ID = "C15"

func TestMain(m *testing.M) { core.Main(m, ID) }

// Case. Dir "A": library encoder (Codec) -> image/jpeg decoder vs library decoder.
// Dir "B": independent encoder (Src "std" = image/jpeg.Encode, "ref" = ref/dctenc) -> library decoder Codec.
type Case struct {
	Img     *gen.Image // 8-bit; for Src "ref" with 3 components the samples are YCbCr
	Dir     string
	Codec   string // baseline | extended
	Quality int
	Src     string       `json:",omitempty"`
	Ref     *dctenc.Opts `json:",omitempty"`
}

var classes = []string{"noise", "noise", "gradient", "checker", "twolevel", "constant", "extremes", "sparse", "runs"}

func maxDim() int {
	if core.Thorough() {
		return 256
	}
	return 72
}

func genImg(t *rapid.T) *gen.Image {
	md := maxDim()
	if rapid.IntRange(0, 2).Draw(t, "small") > 0 {
		md = 33
	}
	o := gen.ImageOpts{MaxDim: md, MaxArea: md * md, Comps: []int{1, 3}, PMin: 8, PMax: 8, Classes: classes, LiteralMax: 16}
	return gen.ImageGen(o).Draw(t, "img")
}

func genRef(t *rapid.T, im *gen.Image) *dctenc.Opts {
	o := &dctenc.Opts{W: im.W, H: im.H, Gray: im.C == 1, HY: 1, VY: 1,
		Optimize: rapid.Bool().Draw(t, "opt"), JFIF: rapid.Bool().Draw(t, "jfif"), Adobe: rapid.IntRange(0, 3).Draw(t, "adobe") == 0,
		ZeroIDs: rapid.Bool().Draw(t, "zeroids"), COM: rapid.IntRange(0, 3).Draw(t, "com") == 0}
	if im.C == 3 {
		s := rapid.SampledFrom([][2]int{{1, 1}, {2, 1}, {2, 2}, {1, 2}}).Draw(t, "sampling")
		o.HY, o.VY = s[0], s[1]
	}
	mx := (im.W + 8*o.HY - 1) / (8 * o.HY)
	my := (im.H + 8*o.VY - 1) / (8 * o.VY)
	switch rapid.IntRange(0, 4).Draw(t, "dri") {
	case 0:
		o.DRI = 1
	case 1:
		o.DRI = mx // one MCU row
	case 2:
		o.DRI = rapid.IntRange(1, max(1, mx*my)).Draw(t, "driN")
	}
	return o
}

func Gen(t *rapid.T) *Case {
	c := &Case{Img: genImg(t), Codec: rapid.SampledFrom([]string{"baseline", "baseline", "extended"}).Draw(t, "codec"),
		Quality: rapid.OneOf(rapid.IntRange(1, 100), rapid.SampledFrom([]int{1, 50, 75, 90, 100})).Draw(t, "quality")}
	switch rapid.IntRange(0, 3).Draw(t, "dir") {
	case 0:
		c.Dir = "A"
	case 1:
		c.Dir, c.Src = "B", "std"
	default:
		c.Dir, c.Src = "B", "ref"
		c.Ref = genRef(t, c.Img)
		c.Ref.Quality = c.Quality
	}
	return c
}

// rgbOf returns the reference decoder's RGB (or grey) samples, tightly packed.
func rgbOf(img image.Image, w, h int) ([]byte, int) {
	switch im := img.(type) {
	case *image.Gray:
		out := make([]byte, w*h)
		for y := 0; y < h; y++ {
			for x := 0; x < w; x++ {
				out[y*w+x] = im.GrayAt(x, y).Y
			}
		}
		return out, 1
	case *image.YCbCr:
		out := make([]byte, w*h*3)
		for y := 0; y < h; y++ {
			for x := 0; x < w; x++ {
				c := im.YCbCrAt(x, y)
				r, g, b := color.YCbCrToRGB(c.Y, c.Cb, c.Cr)
				i := (y*w + x) * 3
				out[i], out[i+1], out[i+2] = r, g, b
			}
		}
		return out, 3
	}
	panic("harness: unexpected image type from image/jpeg")
}

func libDecode(codec string, s []byte) ([]byte, int, int, int, error) {
	if codec == "baseline" {
		return baseline.Decode(s)
	}
	px, w, h, c, _, err := extended.Decode(s)
	return px, w, h, c, err
}

func Check(c *Case) (o core.Outcome) {
	im := c.Img
	o.Label("dir=%s", c.Dir)
	o.Label("codec=%s", c.Codec)
	o.Label("comps=%d", im.C)
	o.Label("quality=%d0s", c.Quality/10)
	px := im.Bytes()
	var stream []byte
	var err error
	mcuW, mcuH := 8, 8
	switch {
	case c.Dir == "A":
		if c.Codec == "baseline" {
			stream, err = baseline.Encode(px, im.W, im.H, im.C, c.Quality)
		} else {
			stream, err = extended.Encode(px, im.W, im.H, im.C, 8, c.Quality)
		}
		if err != nil {
			o.Fail = core.Failf("encode-error", "%v", err)
			return
		}
	case c.Src == "std":
		o.Label("src=image/jpeg")
		var buf bytes.Buffer
		if im.C == 1 {
			g := image.NewGray(image.Rect(0, 0, im.W, im.H))
			copy(g.Pix, px)
			err = jpeg.Encode(&buf, g, &jpeg.Options{Quality: c.Quality})
		} else {
			r := image.NewRGBA(image.Rect(0, 0, im.W, im.H))
			for i := 0; i < im.W*im.H; i++ {
				r.Pix[4*i], r.Pix[4*i+1], r.Pix[4*i+2], r.Pix[4*i+3] = px[3*i], px[3*i+1], px[3*i+2], 255
			}
			err = jpeg.Encode(&buf, r, &jpeg.Options{Quality: c.Quality})
			mcuW, mcuH = 16, 16
			o.Label("sampling=2x2")
		}
		if err != nil {
			panic("harness: image/jpeg.Encode failed: " + err.Error())
		}
		stream = buf.Bytes()
	default:
		o.Label("src=ref")
		ro := *c.Ref
		ro.W, ro.H, ro.Gray, ro.Quality = im.W, im.H, im.C == 1, c.Quality
		stream, err = dctenc.Encode(ro, px)
		if err != nil {
			panic("harness: reference encoder failed: " + err.Error())
		}
		mcuW, mcuH = 8*ro.HY, 8*ro.VY
		if ro.Gray {
			mcuW, mcuH = 8, 8
		}
		if im.C == 3 {
			o.Label("sampling=%dx%d", ro.HY, ro.VY)
		}
		if ro.DRI > 0 {
			o.Label("restart")
		}
		if ro.Optimize {
			o.Label("optimised-huffman")
		}
		if ro.Adobe {
			o.Label("adobe-app14")
		}
		if ro.ZeroIDs {
			o.Label("ids=0..2")
		}
	}
	if im.W%mcuW != 0 || im.H%mcuH != 0 {
		o.Label("partial-mcu")
	}
	mcus := ((im.W + mcuW - 1) / mcuW) * ((im.H + mcuH - 1) / mcuH)
	o.NonTrivial = mcus >= 2 || im.W%mcuW != 0 || im.H%mcuH != 0
	ref, err := jpeg.Decode(bytes.NewReader(stream))
	if err != nil {
		if c.Dir == "A" {
			o.Fail = core.Failf("independent-decoder-rejects", "image/jpeg rejects the library's stream: %v", err)
			return
		}
		panic("harness: image/jpeg rejects an independent encoder's stream: " + err.Error())
	}
	if ref.Bounds().Dx() != im.W || ref.Bounds().Dy() != im.H {
		o.Fail = core.Failf("geometry", "image/jpeg sees %v for a %dx%d image", ref.Bounds(), im.W, im.H)
		return
	}
	want, rc := rgbOf(ref, im.W, im.H)
	if rc != im.C {
		o.Fail = core.Failf("geometry", "image/jpeg sees %d components, image has %d", rc, im.C)
		return
	}
	got, w, h, comps, err := libDecode(c.Codec, stream)
	if err != nil {
		o.Fail = core.Failf("decode-error", "%s decoder rejects the stream: %v", c.Codec, err)
		return
	}
	if w != im.W || h != im.H || comps != im.C {
		o.Fail = core.Failf("geometry", "%s decoder reports %dx%dx%d, image is %dx%dx%d", c.Codec, w, h, comps, im.W, im.H, im.C)
		return
	}
	if len(got) != im.W*im.H*im.C {
		o.Fail = core.Failf("geometry", "%s decoder returned %d bytes, want %d tightly packed samples", c.Codec, len(got), im.W*im.H*im.C)
		return
	}
	tol := 2
	if im.C == 3 {
		tol = 6
	}
	worst := 0
	for i := range want {
		d := int(got[i]) - int(want[i])
		if d < 0 {
			d = -d
		}
		if d > worst {
			worst = d
		}
		if d > tol {
			o.Fail = core.Failf("mismatch", "sample %d (x=%d y=%d c=%d): %s decoder %d, image/jpeg %d, |diff|=%d > %d", i, (i/im.C)%im.W, i/im.C/im.W, i%im.C, c.Codec, got[i], want[i], d, tol)
			return
		}
	}
	if worst > 0 {
		o.Label("decoders-differ-within-tolerance")
	}
	return
}

func TestRapid(t *testing.T)  { core.RunRapid(t, ID, Gen, Check) }
func TestReplay(t *testing.T) { core.RunReplay(t, ID, &Case{}, Check) }

// TestSizes sweeps every size 1..33 x 1..33 with rotating direction / sampling / quality.
func TestSizes(t *testing.T) {
	shard, shards := core.EnvInt("VERIF_SHARD", 0), max(1, core.EnvInt("VERIF_SHARDS", 1))
	seed := core.EnvInt("VERIF_SEED", 1)
	g := rapid.Custom(Gen)
	per := 1
	if core.Thorough() {
		per = 6
	}
	n := 0
	for w := 1; w <= 33; w++ {
		for h := 1; h <= 33; h++ {
			n++
			if n%shards != shard {
				continue
			}
			for k := 0; k < per; k++ {
				c := g.Example(seed*20000 + n*8 + k)
				c.Img.W, c.Img.H = w, h
				c.Img.Pix, c.Img.Seed = nil, uint64(seed*20000+n*8+k)
				if len(c.Img.Class) > 4 && c.Img.Class[:4] == "lit-" {
					c.Img.Class = c.Img.Class[4:]
				}
				if c.Ref != nil {
					c.Ref.W, c.Ref.H = w, h
					if c.Ref.DRI > 0 {
						c.Ref.DRI = 1 + (n+k)%3
					}
				}
				core.Eval(t, ID, "exhaustive", c, Check)
			}
		}
	}
	core.ExhaustiveDone("every size 1..33 x 1..33, generated direction / sampling / quality per cell", 1089)
}

// TestBig: the free generator's cases at sizes where a dimension or the sample count crosses a
// power of two (255..257, 511..513, 1023..1025, 4095..4097 with a short other side; both sides
// 250..300, i.e. more than 2^16 samples).
func TestBig(t *testing.T) {
	g := rapid.Custom(func(t *rapid.T) *Case {
		c := Gen(t)
		d := gen.BigGeometry().Draw(t, "big")
		c.Img.Resize(d[0], d[1])
		return c
	})
	core.RunSharded(t, ID, 24, 600, g, Check)
}
