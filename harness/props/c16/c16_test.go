// C16 Every encoded frame is one well-formed, self-describing codestream: strict independent
// marker walkers (ref/walk) are the validity predicate; header fields must equal the arguments.
package c16

import (
	"strings"
	"errors"
	"testing"

	"github.com/cocosip/go-dicom-codecs/codec"
	"github.com/cocosip/go-dicom-codecs/jpeg/baseline"
	"github.com/cocosip/go-dicom-codecs/jpeg/extended"
	jl "github.com/cocosip/go-dicom-codecs/jpeg/lossless"
	"github.com/cocosip/go-dicom-codecs/jpeg/lossless14sv1"
	"github.com/cocosip/go-dicom-codecs/jpeg2000"
	"github.com/cocosip/go-dicom-codecs/jpeg2000/htj2k"
	jlsl "github.com/cocosip/go-dicom-codecs/jpegls/lossless"
	jlsn "github.com/cocosip/go-dicom-codecs/jpegls/nearlossless"
	"github.com/cocosip/go-dicom-codecs/rle"
	"github.com/cocosip/go-dicom/pkg/dicom/transfer"
	dcodec "github.com/cocosip/go-dicom/pkg/imaging/codec"
	"github.com/cocosip/go-dicom/pkg/imaging/imagetypes"
	"pgregory.net/rapid"

	"verif/harness/core"
	"verif/harness/gen"
	"verif/harness/j2k"
	"verif/harness/jls"
	"verif/harness/ref/rleref"
	"verif/harness/ref/walk"
)

const ID = "C16"

func TestMain(m *testing.M) { core.Main(m, ID) }

// Case: Enc selects the encoder; Arg is quality / NEAR / predictor depending on Enc.
type Case struct {
	Enc    string // baseline extended8 extended12 lossless sv1 jpegls jpegls-near j2k htj2k rle
	Img    *gen.Image
	Arg    int         `json:",omitempty"`
	Cfg    *j2k.Config `json:",omitempty"`
	HTUID  string      `json:",omitempty"` // 201 202 203
	Planar int         `json:",omitempty"` // rle
	BA     int         `json:",omitempty"` // rle BitsAllocated (8,16)
}

var encs = []string{"baseline", "extended8", "extended12", "lossless", "lossless", "sv1", "jpegls", "jpegls-near", "j2k", "j2k", "j2k", "htj2k", "rle"}

func bigDim(t *rapid.T, label string) int {
	return rapid.SampledFrom([]int{255, 256, 257, 300, 511, 512, 1024}).Draw(t, label)
}

func Gen(t *rapid.T) *Case {
	c := &Case{Enc: rapid.SampledFrom(encs).Draw(t, "enc")}
	shape := rapid.IntRange(0, 9).Draw(t, "shape") // 0: one dimension >= 256, 1: 65535-strip (cheap encoders), else small
	o := gen.ImageOpts{MaxDim: 48, MaxArea: 48 * 48, Comps: []int{1, 3}, PMin: 2, PMax: 16, Classes: []string{"noise", "noise", "noise", "twolevel", "extremes", "runs"}, LiteralMax: 16}
	switch c.Enc {
	case "baseline", "extended8":
		o.PMin, o.PMax = 8, 8
	case "extended12":
		o.PMin, o.PMax, o.Comps = 12, 12, []int{1}
	case "j2k":
		o.Comps, o.PMin, o.Signed = []int{1, 2, 3, 4}, 1, true
	case "htj2k", "rle":
		o.PMin, o.PMax = 8, 8
	}
	im := gen.ImageGen(o).Draw(t, "img")
	im.Pix, im.Seed = nil, rapid.Uint64().Draw(t, "seed")
	if len(im.Class) > 4 && im.Class[:4] == "lit-" {
		im.Class = im.Class[4:]
	}
	if (c.Enc == "htj2k" || c.Enc == "rle") && rapid.Bool().Draw(t, "16") {
		im.P = 16
	}
	switch {
	case shape == 0:
		if rapid.Bool().Draw(t, "wide") {
			im.W, im.H = bigDim(t, "bw"), rapid.IntRange(1, 8).Draw(t, "bh")
		} else {
			im.W, im.H = rapid.IntRange(1, 8).Draw(t, "sw"), bigDim(t, "sh")
		}
	case shape == 1 && (c.Enc == "lossless" || c.Enc == "sv1" || c.Enc == "jpegls" || c.Enc == "jpegls-near" || c.Enc == "rle" || c.Enc == "baseline"):
		im.C = 1
		if rapid.Bool().Draw(t, "wide") {
			im.W, im.H = 65535, 1
		} else {
			im.W, im.H = 1, 65535
		}
	}
	c.Img = im
	switch c.Enc {
	case "baseline", "extended8", "extended12":
		c.Arg = rapid.IntRange(1, 100).Draw(t, "quality")
	case "lossless":
		c.Arg = rapid.IntRange(0, 7).Draw(t, "sel")
	case "jpegls-near":
		c.Arg = jls.NearGen(im.P, true).Draw(t, "near")
	case "j2k":
		cfg := j2k.ConfigGen().Draw(t, "cfg")
		kind := rapid.IntRange(0, 3).Draw(t, "j2kkind")
		if kind == 1 { // irreversible
			cfg.Lossy, cfg.Layers, cfg.Quality = true, 1, rapid.IntRange(1, 100).Draw(t, "q")
			if im.P < 8 {
				im.P = 8
			}
		}
		if kind >= 2 { // tiled, up to 64 tiles, grids kept inside the classes that decode (C19 findings are about decoding, not stream form)
			tx, ty := rapid.IntRange(1, 8).Draw(t, "tx"), rapid.IntRange(1, 8).Draw(t, "ty")
			cfg.TileW, cfg.TileH = (im.W+tx-1)/tx, (im.H+ty-1)/ty
		}
		// the same encoder in HT mode (what the HTJ2K codecs use, but here with tiles, layers and
		// progressions of the caller's choosing): CAP, TLM over all tile-parts, tile-parts per resolution
		if kind != 1 && rapid.IntRange(0, 3).Draw(t, "ht") == 0 {
			// (no explicit precincts: HT mode with several precincts is outside every listed domain,
			// and the encoder panics there - DESIGN 8.4)
			cfg.HT, cfg.Layers, cfg.PW, cfg.PH = true, 1, 0, 0
			if cfg.TileW > 0 {
				// HT mode and tiles: only grids whose tile origins are multiples of 2^levels and lie
				// below the code-block size (elsewhere the encoder's tile geometry - KF-C19-1/2 -
				// makes the HT header writer panic); the last column / row may be partial
				cfg.Levels = min(cfg.Levels, 3)
				cfg.CBW, cfg.CBH = 64, 64 // every tile origin below the code-block size (class of KF-C19-2)
				cfg.TileW, cfg.TileH = rapid.SampledFrom([]int{16, 32}).Draw(t, "httw"), rapid.SampledFrom([]int{16, 32}).Draw(t, "htth")
				if cfg.TileW < 1<<uint(cfg.Levels) || cfg.TileH < 1<<uint(cfg.Levels) {
					cfg.Levels = 2
				}
			}
			if im.P < 2 {
				im.P = 8
			}
		}
		c.Cfg = cfg
	case "htj2k":
		c.HTUID = rapid.SampledFrom([]string{"201", "202", "203"}).Draw(t, "uid")
		c.Cfg = &j2k.Config{Levels: rapid.IntRange(0, 6).Draw(t, "levels"), CBW: rapid.SampledFrom([]int{4, 16, 32, 64}).Draw(t, "bw"), CBH: rapid.SampledFrom([]int{4, 16, 32, 64}).Draw(t, "bh"),
			Quality: rapid.IntRange(1, 100).Draw(t, "q")}
	case "rle":
		c.BA = im.P
		c.Planar = rapid.IntRange(0, 1).Draw(t, "planar")
	}
	return c
}

func fail(kind, f string, a ...any) *core.Failure { return core.Failf(kind, f, a...) }

func checkJPEG(o *core.Outcome, stream []byte, ls bool, sof byte, im *gen.Image) *walk.JPEG {
	j, err := walk.WalkJPEG(stream, ls)
	if err != nil {
		o.Fail = fail("malformed", "%v", err)
		return nil
	}
	if !j.EndsEOI || j.Trailer != 0 {
		o.Fail = fail("malformed", "stream does not end with EOI (trailer %d bytes)", j.Trailer)
		return nil
	}
	if j.NumSOF != 1 || j.SOF != sof {
		o.Fail = fail("header", "%d frame headers, marker FF%02X (want one FF%02X)", j.NumSOF, j.SOF, sof)
		return nil
	}
	if j.P != im.P || j.Y != im.H || j.X != im.W || j.Nf != im.C {
		o.Fail = fail("header", "frame header declares P=%d Y=%d X=%d Nf=%d; arguments were P=%d height=%d width=%d components=%d", j.P, j.Y, j.X, j.Nf, im.P, im.H, im.W, im.C)
		return nil
	}
	if len(j.Scans) != 1 || j.Scans[0].Ns != im.C {
		o.Fail = fail("header", "%d scans / Ns mismatch", len(j.Scans))
		return nil
	}
	if j.Scans[0].FillBytes > 0 {
		// T.81 allows 0xFF fill bytes in front of a marker, but none of the library's encoders
		// writes any: an 0xFF directly in front of EOI in their output is the last byte of the
		// entropy-coded data left without its stuffed zero, and a decoder drops it as fill.
		o.Fail = fail("malformed", "entropy-coded data ends in an unescaped 0xFF (it reads as a fill byte in front of the next marker): ...%x", stream[max(0, len(stream)-6):])
		return nil
	}
	if j.Scans[0].FFCount > 0 {
		o.Label("stuffing-exercised")
		o.NonTrivial = true
	}
	if n := len(j.Scans[0].ECS); n >= 2 && j.Scans[0].ECS[n-2] == 0xFF {
		o.Label("scan-ends-in-stuffed-FF")
	}
	return j
}

func Check(c *Case) (o core.Outcome) {
	im := c.Img
	px := im.Bytes()
	o.Label("enc=%s", c.Enc)
	if im.W >= 256 || im.H >= 256 {
		o.Label("dim>=256")
	}
	if im.W == 65535 || im.H == 65535 {
		o.Label("dim=65535")
	}
	switch c.Enc {
	case "baseline", "extended8", "extended12":
		var s []byte
		var err error
		sof := byte(0xC0)
		if c.Enc == "baseline" {
			s, err = baseline.Encode(px, im.W, im.H, im.C, c.Arg)
		} else {
			s, err = extended.Encode(px, im.W, im.H, im.C, im.P, c.Arg)
			if im.P == 12 {
				sof = 0xC1
			}
		}
		if err != nil {
			o.Fail = fail("encode-error", "%v", err)
			return
		}
		if c.Enc == "extended8" {
			// 8-bit Extended is emitted through the Baseline encoder: SOF0 or SOF1 are both acceptable frame headers
			if j, e := walk.WalkJPEG(s, false); e == nil && j.SOF == 0xC1 {
				sof = 0xC1
			}
		}
		checkJPEG(&o, s, false, sof, im)
	case "lossless", "sv1":
		var s []byte
		var err error
		if c.Enc == "sv1" {
			s, err = lossless14sv1.Encode(px, im.W, im.H, im.C, im.P)
		} else {
			s, err = jl.Encode(px, im.W, im.H, im.C, im.P, c.Arg)
		}
		if err != nil {
			o.Fail = fail("encode-error", "%v", err)
			return
		}
		if j := checkJPEG(&o, s, false, 0xC3, im); j != nil {
			ss := int(j.Scans[0].Ss)
			want := c.Arg
			if c.Enc == "sv1" {
				want = 1
			}
			if (want >= 1 && ss != want) || ss < 1 || ss > 7 {
				o.Fail = fail("header", "SOS declares predictor %d, requested %d", ss, want)
			} else if j.Scans[0].Al != 0 || j.Scans[0].Ah != 0 {
				o.Fail = fail("header", "SOS declares a point transform")
			}
		}
	case "jpegls", "jpegls-near":
		var s []byte
		var err error
		near := 0
		if c.Enc == "jpegls" {
			s, err = jlsl.Encode(px, im.W, im.H, im.C, im.P)
		} else {
			near = c.Arg
			s, err = jlsn.Encode(px, im.W, im.H, im.C, im.P, near)
		}
		if err != nil {
			o.Fail = fail("encode-error", "%v", err)
			return
		}
		if j := checkJPEG(&o, s, true, 0xF7, im); j != nil {
			ilv := 0
			if im.C > 1 {
				ilv = 2
			}
			if int(j.Scans[0].Ss) != near || int(j.Scans[0].Se) != ilv {
				o.Fail = fail("header", "SOS declares NEAR=%d ILV=%d; arguments NEAR=%d, %d components", j.Scans[0].Ss, j.Scans[0].Se, near, im.C)
			}
		}
	case "j2k", "htj2k":
		var s []byte
		var err error
		cfg := c.Cfg
		wantProg, wantLayers, wantTransform := cfg.Prog, cfg.Layers, 1
		wantLevels := cfg.Levels
		levelsExact := true
		if c.Enc == "j2k" {
			s, err = jpeg2000.NewEncoder(j2k.Params(im, cfg)).Encode(px)
			if cfg.Lossy {
				wantTransform = 0
			}
			if cfg.HT {
				o.Label("j2k-ht-mode")
			}
		} else {
			ts := map[string]*transfer.Syntax{"201": transfer.HTJ2KLossless, "202": transfer.HTJ2KLosslessRPCL, "203": transfer.HTJ2K}[c.HTUID]
			cd, ok := dcodec.GetGlobalRegistry().GetCodec(ts)
			if !ok {
				panic("harness: htj2k codec missing")
			}
			pr := uint16(0)
			if im.Signed {
				pr = 1
			}
			info := &imagetypes.FrameInfo{Width: uint16(im.W), Height: uint16(im.H), BitsAllocated: uint16(im.P), BitsStored: uint16(im.P), HighBit: uint16(im.P - 1),
				SamplesPerPixel: uint16(im.C), PixelRepresentation: pr}
			par := htj2k.NewHTJ2KParameters()
			par.BlockWidth, par.BlockHeight, par.NumLevels, par.Quality = cfg.CBW, cfg.CBH, cfg.Levels, cfg.Quality
			src := codec.NewTestPixelData(info)
			_ = src.AddFrame(px)
			dst := codec.NewTestPixelData(info)
			err = cd.Encode(src, dst, par)
			if err == nil {
				s, _ = dst.GetFrame(0)
			}
			wantProg, wantLayers, levelsExact = 2, 1, false
			if c.HTUID == "203" {
				wantTransform = 0
			}
		}
		if err != nil {
			o.Fail = fail("encode-error", "%v", err)
			return
		}
		j, err := walk.WalkJ2K(s)
		if err != nil {
			o.Fail = fail("malformed", "%v", err)
			return
		}
		if err := j.Check(len(s)); err != nil {
			o.Fail = fail("malformed", "%v", err)
			return
		}
		// packet level: every tile's data must divide exactly into the packets the header
		// announces (independent T.800 Annex B reader)
		var t2u *walk.ErrT2Unsupported
		st, err := j.WalkPackets()
		switch {
		case errors.As(err, &t2u):
			o.Label("packets-not-modelled")
		case err != nil && len(j.Parts) > 1 && !strings.Contains(err.Error(), "COD declares"):
			// Multi-tile streams: the library's tile geometry is the subject of the open
			// findings KF-C19-1/2; where neither T.800's nor a tile-local anchoring divides the
			// data the packet-level check is inconclusive (counted), not a C16 verdict.
			o.Label("packets-unreadable-tiled")
			core.Count("packets_unreadable_tiled", 1)
		case err != nil:
			o.Fail = fail("packets", "%v", err)
			return
		default:
			o.Label("packets-walked")
			if st.Packets >= 50 {
				o.Label("packets>=50")
			}
			if st.HeaderFF > 0 {
				o.Label("packet-header-bit-stuffing")
			}
			if st.HeaderStuffed > 0 {
				o.Label("packet-header-ends-FF")
			}
			if st.Precincts > 1 {
				o.Label("precincts>1")
			}
			if st.TileLocalGeometry {
				o.Label("packets-tile-local-geometry")
			}
			if st.OmitsEmptyPrecincts {
				o.Label("packets-of-empty-precincts-omitted")
			}
			core.Count("packets_walked", int64(st.Packets))
			core.Count("packet_headers_ending_FF", int64(st.HeaderStuffed))
		}
		ssiz := byte(im.P - 1)
		if im.Signed {
			ssiz |= 0x80
		}
		tw, th := cfg.TileW, cfg.TileH
		if tw == 0 {
			tw = im.W
		}
		if th == 0 {
			th = im.H
		}
		if int(j.Xsiz) != im.W || int(j.Ysiz) != im.H || j.XOsiz != 0 || j.YOsiz != 0 || j.Csiz != im.C || int(j.XTsiz) != tw || int(j.YTsiz) != th {
			o.Fail = fail("header", "SIZ declares %dx%d offset (%d,%d) Csiz=%d tiles %dx%d; arguments %dx%dx%d tiles %dx%d", j.Xsiz, j.Ysiz, j.XOsiz, j.YOsiz, j.Csiz, j.XTsiz, j.YTsiz, im.W, im.H, im.C, tw, th)
			return
		}
		for i, b := range j.Ssiz {
			if b != ssiz || j.XRsiz[i] != 1 || j.YRsiz[i] != 1 {
				o.Fail = fail("header", "component %d: Ssiz=%#02x XRsiz=%d YRsiz=%d; arguments precision %d signed=%v", i, b, j.XRsiz[i], j.YRsiz[i], im.P, im.Signed)
				return
			}
		}
		if cfg.HT && c.Enc == "j2k" {
			// HT mode may impose its own progression and tile-part structure: only geometry,
			// transform and code-block size are compared with the arguments
			wantProg, wantLayers = j.COD.Prog, j.COD.Layers
		}
		if j.COD.Transform != wantTransform || j.COD.Prog != wantProg || j.COD.Layers != wantLayers || (levelsExact && j.COD.Levels != wantLevels) || j.COD.Levels > wantLevels ||
			j.COD.CBW != cfg.CBW || j.COD.CBH != cfg.CBH {
			o.Fail = fail("header", "COD declares transform=%d progression=%d layers=%d levels=%d code-block %dx%d; parameters transform=%d progression=%d layers=%d levels=%d code-block %dx%d",
				j.COD.Transform, j.COD.Prog, j.COD.Layers, j.COD.Levels, j.COD.CBW, j.COD.CBH, wantTransform, wantProg, wantLayers, wantLevels, cfg.CBW, cfg.CBH)
			return
		}
		ntiles := ((im.W + tw - 1) / tw) * ((im.H + th - 1) / th)
		seen := map[int]bool{}
		for _, tp := range j.Parts {
			if tp.Isot >= ntiles {
				o.Fail = fail("header", "tile-part for tile %d but the grid has %d tiles", tp.Isot, ntiles)
				return
			}
			seen[tp.Isot] = true
		}
		if len(seen) != ntiles {
			o.Fail = fail("header", "tile-parts cover %d of %d tiles", len(seen), ntiles)
			return
		}
		if c.Enc == "htj2k" && (!j.HasCAP || j.Rsiz&0x4000 == 0) {
			o.Fail = fail("header", "HTJ2K codestream without CAP marker / Rsiz bit 14")
			return
		}
		if len(j.Parts) >= 2 {
			o.Label("tile-parts>=2")
		}
		if len(j.TLM) > 0 {
			o.Label("TLM")
		}
		if j.BodyFFCount() > 0 {
			o.Label("stuffing-exercised")
		}
		o.NonTrivial = j.BodyFFCount() > 0 || len(j.Parts) >= 2
		if ntiles > 16 {
			o.Label("tiles>16")
		}
	case "rle":
		pr := "MONOCHROME2"
		if im.C == 3 {
			pr = "RGB"
		}
		info := &imagetypes.FrameInfo{Width: uint16(im.W), Height: uint16(im.H), BitsAllocated: uint16(c.BA), BitsStored: uint16(c.BA), HighBit: uint16(c.BA - 1),
			SamplesPerPixel: uint16(im.C), PlanarConfiguration: uint16(c.Planar), PhotometricInterpretation: pr}
		// history: a frame with more byte planes goes through the package first, so that anything
		// the encoder recycles (scratch encoders, header arrays) holds another frame's values
		{
			wide := &imagetypes.FrameInfo{Width: 3, Height: 2, BitsAllocated: 32, BitsStored: 32, HighBit: 31, SamplesPerPixel: 3, PlanarConfiguration: 0, PhotometricInterpretation: "RGB"}
			ws := codec.NewTestPixelData(wide)
			wb := make([]byte, 3*2*3*4)
			for i := range wb {
				wb[i] = byte(i * 37)
			}
			_ = ws.AddFrame(wb)
			_ = rle.NewRLECodec().Encode(ws, codec.NewTestPixelData(wide), nil)
		}
		src := codec.NewTestPixelData(info)
		_ = src.AddFrame(px)
		dst := codec.NewTestPixelData(info)
		if err := rle.NewRLECodec().Encode(src, dst, nil); err != nil {
			o.Fail = fail("encode-error", "%v", err)
			return
		}
		s, _ := dst.GetFrame(0)
		if err := rleref.CheckHeader(s, c.BA/8*im.C); err != nil {
			o.Fail = fail("malformed", "%v", err)
			return
		}
		if _, err := rleref.Decode(s, im.W*im.H, c.BA/8, im.C, c.Planar); err != nil {
			o.Fail = fail("malformed", "%v", err)
			return
		}
		o.NonTrivial = true
	}
	return
}

func TestRapid(t *testing.T)  { core.RunRapid(t, ID, Gen, Check) }

// TestPackets: single-tile JPEG 2000 frames with many packets (layers x resolutions x
// components) over noise, so that packet headers of every bit length occur and some end
// exactly on a byte boundary with a 0xFF byte (the terminal stuffing rule of B.10.1). About
// one non-empty packet in two thousand does.
func TestPackets(t *testing.T) {
	shard, shards := core.EnvInt("VERIF_SHARD", 0), max(1, core.EnvInt("VERIF_SHARDS", 1))
	seed := core.EnvInt("VERIF_SEED", 1)
	n := 1920
	if core.Thorough() {
		n = 32000
	}
	g := rapid.Custom(func(t *rapid.T) *Case {
		// Measured on the unchanged tree: a header ends in 0xFF mostly when a packet carries a
		// single code-block whose contribution is 255 (511, ...) bytes long, i.e. a 16x16
		// block of 8-bit noise: frames of (16 x 2^L)^2 samples with L levels give that in
		// about 7% of the frames, other shapes almost never (1 in 20000 packets).
		lv := rapid.IntRange(0, 3).Draw(t, "levels")
		side := func(label string) int {
			return (16 << lv) * rapid.SampledFrom([]int{100, 100, 100, 100, 94, 97, 103, 106, 50, 200}).Draw(t, label) / 100
		}
		im := &gen.Image{W: side("w"), H: side("h"), C: rapid.SampledFrom([]int{1, 3, 3, 4}).Draw(t, "c"),
			P: rapid.SampledFrom([]int{7, 8, 8, 8, 8, 9}).Draw(t, "P"), Class: "noise", Seed: rapid.Uint64().Draw(t, "seed")}
		cfg := &j2k.Config{Levels: lv, CBW: rapid.SampledFrom([]int{16, 32, 64}).Draw(t, "cbw"), CBH: rapid.SampledFrom([]int{16, 32, 64}).Draw(t, "cbh"),
			Prog: rapid.IntRange(0, 4).Draw(t, "prog"), Layers: 1, MCT: rapid.Bool().Draw(t, "mct")}
		if im.C != 3 {
			cfg.MCT = false
		}
		return &Case{Enc: "j2k", Img: im, Cfg: cfg}
	})
	for k := 0; k < n; k++ {
		if k%shards != shard {
			continue
		}
		core.Eval(t, ID, "quota", g.Example(seed*1000003+k), Check)
	}
}
func TestReplay(t *testing.T) { core.RunReplay(t, ID, &Case{}, Check) }

// TestTails: very many tiny noise images through every JPEG and JPEG-LS encoder. What varies is
// the tail of the scan - how many bits are left in the last byte and whether padding turns it
// into 0xFF, whether the JPEG-LS bit writer's 32-bit buffer is exactly full at the end -, the
// place where a stuffing rule is easiest to lose (label scan-ends-in-stuffed-FF).
func TestTails(t *testing.T) {
	g := rapid.Custom(func(t *rapid.T) *Case {
		enc := rapid.SampledFrom([]string{"baseline", "extended8", "extended12", "lossless", "sv1", "jpegls", "jpegls", "jpegls", "jpegls-near", "jpegls-near"}).Draw(t, "enc")
		im := &gen.Image{W: rapid.IntRange(1, 9).Draw(t, "w"), H: rapid.IntRange(1, 8).Draw(t, "h"), C: rapid.SampledFrom([]int{1, 1, 3}).Draw(t, "c"), P: 8, Class: "noise", Seed: rapid.Uint64().Draw(t, "seed")}
		c := &Case{Enc: enc, Img: im}
		switch enc {
		case "baseline", "extended8":
			c.Arg = rapid.SampledFrom([]int{100, 100, 90, 50}).Draw(t, "quality")
		case "extended12":
			im.P, im.C = 12, 1
			c.Arg = rapid.SampledFrom([]int{100, 90}).Draw(t, "quality")
		case "lossless":
			im.P = rapid.SampledFrom([]int{8, 8, 12, 16}).Draw(t, "P")
			c.Arg = rapid.IntRange(0, 7).Draw(t, "sel")
		case "sv1":
			im.P = rapid.SampledFrom([]int{8, 8, 12, 16}).Draw(t, "P")
		case "jpegls":
			im.P = rapid.SampledFrom([]int{8, 8, 8, 12, 16}).Draw(t, "P")
		case "jpegls-near":
			im.P = rapid.SampledFrom([]int{8, 8, 12}).Draw(t, "P")
			c.Arg = rapid.IntRange(0, 3).Draw(t, "near")
		}
		return c
	})
	core.RunSharded(t, ID, 96000, 2400000, g, Check)
}
