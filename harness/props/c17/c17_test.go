// C17 Encoders reject unrepresentable input: error, never panic or mis-declared stream.
package c17

import (
	"time"
	"encoding/json"
	"fmt"
	"sort"
	"syscall"
	"testing"

	"github.com/cocosip/go-dicom-codecs/codec"
	"github.com/cocosip/go-dicom-codecs/jpeg/baseline"
	"github.com/cocosip/go-dicom-codecs/jpeg/extended"
	jl "github.com/cocosip/go-dicom-codecs/jpeg/lossless"
	"github.com/cocosip/go-dicom-codecs/jpeg/lossless14sv1"
	"github.com/cocosip/go-dicom-codecs/jpeg2000"
	"github.com/cocosip/go-dicom-codecs/jpeg2000/htj2k"
	j2kl "github.com/cocosip/go-dicom-codecs/jpeg2000/lossless"
	j2ky "github.com/cocosip/go-dicom-codecs/jpeg2000/lossy"
	jlsl "github.com/cocosip/go-dicom-codecs/jpegls/lossless"
	jlsn "github.com/cocosip/go-dicom-codecs/jpegls/nearlossless"
	_ "github.com/cocosip/go-dicom-codecs/rle"
	"github.com/cocosip/go-dicom/pkg/dicom/transfer"
	dcodec "github.com/cocosip/go-dicom/pkg/imaging/codec"
	"github.com/cocosip/go-dicom/pkg/imaging/imagetypes"
	"pgregory.net/rapid"

	"verif/harness/core"
	"verif/harness/ref/rleref"
	"verif/harness/ref/walk"
)

const ID = "C17"

func TestMain(m *testing.M) { core.Main(m, ID) }

// Case: Level "pkg" calls a package-level encoder with raw arguments; Level "codec" calls a
// registered codec with a FrameInfo / frames / parameters combination.
type Case struct {
	Level string
	Enc   string // pkg: baseline extended lossless sv1 jpegls jpegls-near j2k ; codec: transfer syntax key
	W, H  int
	C, P  int
	Arg   int `json:",omitempty"` // quality / NEAR / predictor
	Buf   int // buffer length in bytes (-1: nil)
	// j2k
	Levels, CBW, CBH int  `json:",omitempty"`
	NilParams        bool `json:",omitempty"`
	Lossy            bool `json:",omitempty"`
	// codec level
	BA, BS  int    `json:",omitempty"`
	Frames  int    `json:",omitempty"` // number of frames (0 allowed)
	Short   int    `json:",omitempty"` // 0: every frame has Buf bytes; k>0: frame k-1 has Buf bytes, the others the full length
	NilInfo bool   `json:",omitempty"`
	ParMode string `json:",omitempty"` // nil | foreign | typed-bad
	ParVal  int    `json:",omitempty"`
	// ParVals (modes typed-mix / foreign-mix): every parameter drawn on its own, so that a value
	// that is only checked on some path (behind an early return taken for another field's value)
	// is met together with the value that selects the path
	ParVals map[string]int `json:",omitempty"`
}

func bps(p int) int {
	if p <= 8 {
		return 1
	}
	return 2
}

func (c *Case) needed() int {
	if c.W <= 0 || c.H <= 0 || c.C <= 0 || c.P <= 0 || c.W > 1<<20 || c.H > 1<<20 || c.C > 16 {
		return 0
	}
	return c.W * c.H * c.C * bps(c.P)
}

// mustReject lists the argument classes the statement says an encoder must answer with an error.
func (c *Case) mustReject() (string, bool) {
	if c.W <= 0 || c.H <= 0 {
		return "non-positive dimension", true
	}
	sixteen := c.Enc != "j2k"
	if sixteen && (c.W > 65535 || c.H > 65535) {
		return "dimension above 65535 in a format with 16-bit size fields", true
	}
	compsOK, depthOK := c.C == 1 || c.C == 3, true
	switch c.Enc {
	case "baseline":
	case "extended":
		depthOK = c.P == 8 || c.P == 12
		if c.P == 12 && c.C != 1 {
			compsOK = false
		}
	case "lossless", "sv1", "jpegls", "jpegls-near":
		depthOK = c.P >= 2 && c.P <= 16
	case "j2k":
		compsOK = c.C >= 1 && c.C <= 4
		depthOK = c.P >= 1 && c.P <= 16
	}
	if !compsOK {
		return "unsupported component count", true
	}
	if !depthOK {
		return "unsupported bit depth", true
	}
	p := c.P
	if c.Enc == "baseline" {
		p = 8
	}
	if c.Buf < c.W*c.H*c.C*bps(p) {
		return "pixel buffer shorter than width*height*components*bytes-per-sample", true
	}
	switch c.Enc {
	case "baseline", "extended":
		if c.Arg < 1 || c.Arg > 100 {
			return "quality out of range", true
		}
	case "jpegls-near":
		if c.Arg < 0 || c.Arg > 255 {
			return "NEAR out of range", true
		}
	case "lossless":
		if c.Arg < 0 || c.Arg > 7 {
			return "predictor out of range", true
		}
	case "j2k":
		if c.NilParams {
			return "", false
		}
		if c.Levels < 0 || c.Levels > 6 {
			return "level count out of range", true
		}
		pow2 := func(v int) bool { return v > 0 && v&(v-1) == 0 }
		if c.CBW < 4 || c.CBW > 1024 || !pow2(c.CBW) || c.CBH < 4 || c.CBH > 1024 || !pow2(c.CBH) {
			return "code-block size out of range", true
		}
	}
	return "", false
}

func buffer(n int) []byte {
	if n < 0 {
		return nil
	}
	b := make([]byte, n)
	for i := range b {
		b[i] = byte(i*31 + 7)
	}
	return b
}

func checkPkg(c *Case, o *core.Outcome) {
	buf := buffer(c.Buf)
	// keep 12-bit / P-bit samples inside their range so that a valid call stays valid
	if c.P > 8 && c.P < 16 {
		for i := 1; i < len(buf); i += 2 {
			buf[i] &= byte(1<<uint(c.P-8) - 1)
		}
	} else if c.P > 0 && c.P < 8 {
		for i := range buf {
			buf[i] &= byte(1<<uint(c.P) - 1)
		}
	}
	var stream []byte
	var err error
	switch c.Enc {
	case "baseline":
		stream, err = baseline.Encode(buf, c.W, c.H, c.C, c.Arg)
	case "extended":
		stream, err = extended.Encode(buf, c.W, c.H, c.C, c.P, c.Arg)
	case "lossless":
		stream, err = jl.Encode(buf, c.W, c.H, c.C, c.P, c.Arg)
	case "sv1":
		stream, err = lossless14sv1.Encode(buf, c.W, c.H, c.C, c.P)
	case "jpegls":
		stream, err = jlsl.Encode(buf, c.W, c.H, c.C, c.P)
	case "jpegls-near":
		stream, err = jlsn.Encode(buf, c.W, c.H, c.C, c.P, c.Arg)
	case "j2k":
		var p *jpeg2000.EncodeParams
		if !c.NilParams {
			p = jpeg2000.DefaultEncodeParams(c.W, c.H, c.C, c.P, false)
			p.NumLevels, p.CodeBlockWidth, p.CodeBlockHeight = c.Levels, c.CBW, c.CBH
			p.Lossless = !c.Lossy
		}
		stream, err = jpeg2000.NewEncoder(p).Encode(buf)
	default:
		panic("harness: enc " + c.Enc)
	}
	why, must := c.mustReject()
	if must {
		o.Label("must-reject")
		o.Label("reject:%s", why)
	}
	if c.Enc == "j2k" && c.NilParams {
		o.Label("nil-params")
	}
	if err != nil {
		o.Label("rejected")
		if !must {
			// the statement does not oblige the encoder to accept anything; only record it
			o.Label("rejected-not-listed")
		}
		return
	}
	if must {
		o.Fail = core.Failf("accepted-invalid", "%s encoder accepted %s (w=%d h=%d comps=%d depth=%d arg=%d len(pixels)=%d) and returned %d bytes", c.Enc, why, c.W, c.H, c.C, c.P, c.Arg, c.Buf, len(stream))
		return
	}
	o.Label("accepted")
	// a returned stream must decode to exactly the requested geometry
	var w, h, comps, p int
	switch c.Enc {
	case "baseline":
		_, w, h, comps, err = baseline.Decode(stream)
		p = c.P
	case "extended":
		_, w, h, comps, p, err = extended.Decode(stream)
	case "lossless":
		_, w, h, comps, p, err = jl.Decode(stream)
	case "sv1":
		_, w, h, comps, p, err = lossless14sv1.Decode(stream)
	case "jpegls":
		_, w, h, comps, p, err = jlsl.Decode(stream)
	case "jpegls-near":
		_, w, h, comps, p, _, err = jlsn.Decode(stream)
	case "j2k":
		d := jpeg2000.NewDecoder()
		err = d.Decode(stream)
		if err == nil {
			w, h, comps, p = d.Width(), d.Height(), d.Components(), d.BitDepth()
			if n := len(d.GetPixelData()); n != c.W*c.H*c.C*bps(c.P) {
				o.Fail = core.Failf("mis-declared", "decoded %d bytes, want %d", n, c.W*c.H*c.C*bps(c.P))
				return
			}
		}
	}
	if err != nil {
		o.Fail = core.Failf("undecodable", "%s encoder returned a stream its decoder rejects: %v (w=%d h=%d comps=%d depth=%d arg=%d)", c.Enc, err, c.W, c.H, c.C, c.P, c.Arg)
		return
	}
	wantP := c.P
	if c.Enc == "baseline" {
		wantP = p
	}
	if w != c.W || h != c.H || comps != c.C || p != wantP {
		o.Fail = core.Failf("mis-declared", "%s stream decodes to %dx%dx%d depth %d, requested %dx%dx%d depth %d", c.Enc, w, h, comps, p, c.W, c.H, c.C, c.P)
	}
}

// ---------------------------------------------------------------------------------------
// codec level

var codecTS = map[string]*transfer.Syntax{
	"RLE": transfer.RLELossless, "50": transfer.JPEGBaseline8Bit, "51": transfer.JPEGProcess2_4, "57": transfer.JPEGLossless, "70": transfer.JPEGLosslessSV1,
	"80": transfer.JPEGLSLossless, "81": transfer.JPEGLSNearLossless, "90": transfer.JPEG2000Lossless, "91": transfer.JPEG2000Lossy,
	"92": transfer.JPEG2000Part2MultiComponentLosslessOnly, "93": transfer.JPEG2000Part2MultiComponent, "201": transfer.HTJ2KLossless, "202": transfer.HTJ2KLosslessRPCL, "203": transfer.HTJ2K,
}
var codecKeys = []string{"RLE", "50", "51", "57", "70", "80", "81", "90", "91", "92", "93", "201", "202", "203"}

func params(c *Case) dcodec.Parameters {
	switch c.ParMode {
	case "foreign":
		p := dcodec.NewBaseParameters()
		for _, k := range []string{"quality", "near", "predictor", "numLevels", "blockWidth", "blockHeight", "rate", "numLayers", "bitDepth", "progressionOrder"} {
			p.SetParameter(k, c.ParVal)
		}
		p.SetParameter("targetRatio", float64(c.ParVal))
		p.SetParameter("rateLevels", []int{c.ParVal})
		p.SetParameter("unknownKey", "text")
		return p
	case "foreign-types":
		p := dcodec.NewBaseParameters()
		for _, k := range []string{"quality", "near", "predictor", "numLevels", "blockWidth", "rate", "numLayers", "targetRatio", "rateLevels", "allowMCT"} {
			p.SetParameter(k, "not-a-number")
		}
		return p
	case "foreign-mix":
		p := dcodec.NewBaseParameters()
		names := make([]string, 0, len(c.ParVals))
		for k := range c.ParVals {
			names = append(names, k)
		}
		sort.Strings(names)
		for _, k := range names {
			if k == "targetRatio" {
				p.SetParameter(k, float64(c.ParVals[k]))
			} else {
				p.SetParameter(k, c.ParVals[k])
			}
		}
		return p
	case "typed-mix":
		v := func(k string, def int) int {
			if x, ok := c.ParVals[k]; ok {
				return x
			}
			return def
		}
		switch c.Enc {
		case "90", "92":
			p := j2kl.NewLosslessParameters()
			p.NumLevels, p.NumLayers, p.Rate, p.ProgressionOrder, p.TargetRatio = v("numLevels", p.NumLevels), v("numLayers", p.NumLayers), v("rate", p.Rate), uint8(v("progressionOrder", int(p.ProgressionOrder))), float64(v("targetRatio", int(p.TargetRatio)))
			return p
		case "91", "93":
			p := j2ky.NewLossyParameters()
			p.NumLevels, p.Rate, p.NumLayers, p.TargetRatio = v("numLevels", p.NumLevels), v("rate", p.Rate), v("numLayers", p.NumLayers), float64(v("targetRatio", int(p.TargetRatio)))
			if x, ok := c.ParVals["quality"]; ok {
				p.SetParameter("quality", x)
			}
			if x, ok := c.ParVals["progressionOrder"]; ok {
				p.SetParameter("progressionOrder", x)
			}
			return p
		case "201", "202", "203":
			p := htj2k.NewHTJ2KParameters()
			p.Quality, p.BlockWidth, p.BlockHeight, p.NumLevels = v("quality", p.Quality), v("blockWidth", p.BlockWidth), v("blockHeight", p.BlockHeight), v("numLevels", p.NumLevels)
			return p
		}
		cd, _ := dcodec.GetGlobalRegistry().GetCodec(codecTS[c.Enc])
		p := cd.GetDefaultParameters()
		for _, k := range []string{"quality", "near", "predictor"} {
			if x, ok := c.ParVals[k]; ok {
				p.SetParameter(k, x)
			}
		}
		return p
	case "typed-bad":
		switch c.Enc {
		case "90", "92":
			p := j2kl.NewLosslessParameters()
			p.NumLevels, p.NumLayers, p.Rate, p.ProgressionOrder, p.TargetRatio = c.ParVal, c.ParVal, c.ParVal, uint8(c.ParVal), float64(c.ParVal)
			p.RateLevels = []int{c.ParVal, c.ParVal}
			return p
		case "91", "93":
			p := j2ky.NewLossyParameters()
			p.NumLevels, p.Rate, p.NumLayers, p.TargetRatio, p.QuantStepScale = c.ParVal, c.ParVal, c.ParVal, float64(c.ParVal), float64(c.ParVal)
			p.RateLevels = []int{c.ParVal}
			return p
		case "201", "202", "203":
			p := htj2k.NewHTJ2KParameters()
			p.Quality, p.BlockWidth, p.BlockHeight, p.NumLevels = c.ParVal, c.ParVal, c.ParVal, c.ParVal
			return p
		}
		cd, _ := dcodec.GetGlobalRegistry().GetCodec(codecTS[c.Enc])
		p := cd.GetDefaultParameters()
		for _, k := range []string{"quality", "near", "predictor", "bitDepth"} {
			p.SetParameter(k, c.ParVal)
		}
		return p
	}
	return nil
}

func checkCodec(c *Case, o *core.Outcome) {
	cd, ok := dcodec.GetGlobalRegistry().GetCodec(codecTS[c.Enc])
	if !ok {
		o.Fail = core.Failf("not-registered", "%s", c.Enc)
		return
	}
	o.Label("codec=%s", c.Enc)
	o.Label("params=%s", c.ParMode)
	var info *imagetypes.FrameInfo
	if !c.NilInfo {
		info = &imagetypes.FrameInfo{Width: uint16(c.W), Height: uint16(c.H), BitsAllocated: uint16(c.BA), BitsStored: uint16(c.BS), HighBit: uint16(c.BS - 1),
			SamplesPerPixel: uint16(c.C)}
	} else {
		o.Label("nil-frameinfo")
	}
	src := codec.NewTestPixelData(info)
	full := c.W * c.H * c.C * ((c.BA + 7) / 8)
	for i := 0; i < c.Frames; i++ {
		if c.Short > 0 && i != c.Short-1 {
			_ = src.AddFrame(buffer(full))
			continue
		}
		_ = src.AddFrame(buffer(c.Buf))
	}
	if c.Short > 1 {
		o.Label("short-later-frame")
	}
	if c.Frames == 0 {
		o.Label("zero-frames")
	}
	if c.Buf == 0 {
		o.Label("empty-frame")
	}
	dst := codec.NewTestPixelData(info)
	err := cd.Encode(src, dst, params(c))
	if err != nil {
		o.Label("rejected")
		return
	}
	o.Label("accepted")
	if c.Frames == 0 {
		// Zero frames in, zero frames out is a representable request; the statement only
		// demands no panic and no mis-declared stream here.
		if dst.FrameCount() != 0 {
			o.Fail = core.Failf("mis-declared", "0 frames in, %d out", dst.FrameCount())
		}
		return
	}
	if c.NilInfo || c.W == 0 || c.H == 0 || c.C == 0 {
		o.Fail = core.Failf("accepted-invalid", "codec %s accepted nilInfo=%v frames=%d %dx%d spp=%d", c.Enc, c.NilInfo, c.Frames, c.W, c.H, c.C)
		return
	}
	// "a pixel buffer shorter than width x height x components x bytes-per-sample ... returns an
	// error": at this level every frame is such a buffer. Asserted where the bytes-per-sample of
	// the description is unambiguous (BitsStored fills the same number of bytes as BitsAllocated;
	// see KF-C10-1 for the other descriptions).
	if (c.BA == 8 || c.BA == 16) && c.BS >= 1 && c.BS <= c.BA && (c.BS+7)/8 == c.BA/8 && (c.C == 1 || c.C == 3) {
		full := c.W * c.H * c.C * (c.BA / 8)
		for i := 0; i < c.Frames; i++ {
			n := c.Buf
			if c.Short > 0 && i != c.Short-1 {
				n = full
			}
			if n < full {
				o.Fail = core.Failf("accepted-invalid", "codec %s accepted frame %d of %d with %d bytes; %dx%dx%d at %d bits needs %d", c.Enc, i, c.Frames, n, c.W, c.H, c.C, c.BA, full)
				return
			}
		}
	}
	planes := (c.BA + 7) / 8 * c.C
	if c.Enc == "RLE" && planes > 15 {
		o.Fail = core.Failf("accepted-invalid", "RLE codec accepted %d byte planes (the segment table holds 15)", planes)
		return
	}
	if dst.FrameCount() != c.Frames {
		o.Fail = core.Failf("mis-declared", "%d frames in, %d out", c.Frames, dst.FrameCount())
		return
	}
	for i := 0; i < dst.FrameCount(); i++ {
		f, _ := dst.GetFrame(i)
		var w, h, comps int
		switch c.Enc {
		case "RLE":
			if e := rleref.CheckHeader(f, planes); e != nil {
				o.Fail = core.Failf("mis-declared", "RLE frame: %v", e)
				return
			}
			continue
		case "90", "91", "92", "93", "201", "202", "203":
			j, e := walk.WalkJ2K(f)
			if e != nil {
				o.Fail = core.Failf("mis-declared", "codestream not parseable: %v", e)
				return
			}
			if e := j.Check(len(f)); e != nil {
				o.Fail = core.Failf("mis-declared", "codec %s returned a codestream that is not well-formed: %v", c.Enc, e)
				return
			}
			w, h, comps = int(j.Xsiz), int(j.Ysiz), j.Csiz
		default:
			j, e := walk.WalkJPEG(f, c.Enc == "80" || c.Enc == "81")
			if e != nil {
				o.Fail = core.Failf("mis-declared", "stream not parseable: %v", e)
				return
			}
			w, h, comps = j.X, j.Y, j.Nf
		}
		if w != c.W || h != c.H || comps != c.C {
			o.Fail = core.Failf("mis-declared", "codec %s frame header declares %dx%dx%d, FrameInfo %dx%dx%d", c.Enc, w, h, comps, c.W, c.H, c.C)
			return
		}
	}
}

// hangLimit: an encoder call that has not returned after this long is reported as a hang
// ("returns an error" includes returning at all). Legitimate calls of this check take
// milliseconds; the limit leaves two orders of magnitude for a loaded machine.
const hangLimit = 90 * time.Second

func Check(c *Case) (o core.Outcome) {
	o.Label("level=%s", c.Level)
	o.Label("enc=%s", c.Enc)
	o.NonTrivial = true
	// The call runs on its own goroutine so that a call which never returns can be reported;
	// it works on a private copy of the outcome, taken over only when it finishes.
	type res struct {
		o core.Outcome
		f *core.Failure
	}
	done := make(chan res, 1)
	go func() {
		lo := o
		// a panic inside the library is the property's first concern: keep the labels gathered so far
		f := core.Guard(func() *core.Failure {
			if c.Level == "pkg" {
				checkPkg(c, &lo)
			} else {
				checkCodec(c, &lo)
			}
			return nil
		})
		done <- res{lo, f}
	}()
	// A call counts as hung when this process has burnt hangCPU of user CPU time since the call
	// started (a loop that never ends does; a slow machine does not: wall-clock time alone is no
	// verdict). A call that is still out after hangWall without that much CPU is inconclusive.
	cpu0 := userCPU()
	start := time.Now()
	tick := time.NewTicker(2 * time.Second)
	defer tick.Stop()
	for {
		select {
		case r := <-done:
			o = r.o
			if r.f != nil {
				o.Fail = r.f
				o.Label("panicked")
			}
			return
		case <-tick.C:
			if time.Since(start) < hangLimit {
				continue
			}
			if used := userCPU() - cpu0; used >= hangCPU {
				o.Label("hung")
				o.Fail = core.Failf("hang", "%s encoder (%s level) did not return within %v (%.0f s of user CPU) for w=%d h=%d comps=%d depth/BA=%d BS=%d arg=%d buffer=%d bytes", c.Enc, c.Level, time.Since(start).Round(time.Second), used.Seconds(), c.W, c.H, c.C, c.P+c.BA, c.BS, c.Arg, c.Buf)
				return
			}
			if time.Since(start) >= hangWall {
				o.Label("inconclusive-slow")
				core.Count("inconclusive_slow_calls", 1)
				o.NonTrivial = false
				return
			}
		}
	}
}

const (
	hangCPU  = 120 * time.Second
	hangWall = 540 * time.Second
)

func userCPU() time.Duration {
	var ru syscall.Rusage
	_ = syscall.Getrusage(syscall.RUSAGE_SELF, &ru)
	return time.Duration(ru.Utime.Sec)*time.Second + time.Duration(ru.Utime.Usec)*time.Microsecond
}

func unusedReturn() {
	return
}

// ---------------------------------------------------------------------------------------

var pkgEncs = []string{"baseline", "extended", "lossless", "sv1", "jpegls", "jpegls-near", "j2k"}
var smallDims = []int{-1, 0, 1, 2, 3}
var bigDims = []int{255, 256, 32768, 65535, 65536, 65537}
var compsSet = []int{0, 1, 2, 3, 4, 5}
var depthSet = []int{0, 1, 2, 7, 8, 9, 12, 16, 17, 32}

func argSet(enc string) []int {
	switch enc {
	case "baseline", "extended":
		return []int{0, 1, 50, 100, 101}
	case "jpegls-near":
		return []int{-1, 0, 1, 127, 128, 255, 256}
	case "lossless":
		return []int{-1, 0, 1, 7, 8}
	}
	return []int{0}
}

func bufSet(c *Case) []int {
	n := c.needed()
	row := 0
	if c.W > 0 && c.C > 0 && c.P > 0 && c.W <= 1<<20 {
		row = c.W * c.C * bps(c.P)
	}
	s := []int{-1, 0, 1, row, n - 1, n, n + 1}
	out := []int{}
	seen := map[int]bool{}
	for _, v := range s {
		if v < -1 || seen[v] {
			continue
		}
		seen[v] = true
		out = append(out, v)
	}
	return out
}

func Gen(t *rapid.T) *Case {
	if rapid.IntRange(0, 2).Draw(t, "level") == 0 {
		c := &Case{Level: "codec", Enc: rapid.SampledFrom(codecKeys).Draw(t, "codec")}
		c.W = rapid.SampledFrom([]int{0, 1, 2, 7, 16, 255, 256, 32768, 32769, 40000, 65535}).Draw(t, "w")
		c.H = rapid.SampledFrom([]int{0, 1, 2, 5, 5, 256, 32768, 32769, 50000, 65535}).Draw(t, "h")
		// (16384, 21846, 32768, 32769: bytes-per-sample x samples-per-pixel products that wrap to a
		// small number in 16-bit arithmetic)
		c.C = rapid.SampledFrom([]int{0, 1, 1, 2, 3, 3, 4, 16, 16384, 21846, 32768, 32769, 65535}).Draw(t, "spp")
		c.BA = rapid.SampledFrom([]int{0, 1, 7, 8, 8, 9, 12, 16, 16, 24, 32, 64, 65535}).Draw(t, "ba")
		c.BS = rapid.SampledFrom([]int{0, 1, 2, 8, 8, 12, 16, 17, 65535}).Draw(t, "bs")
		c.Frames = rapid.SampledFrom([]int{0, 1, 1, 2, 2, 3}).Draw(t, "frames")
		c.NilInfo = rapid.IntRange(0, 7).Draw(t, "nilinfo") == 0
		c.ParMode = rapid.SampledFrom([]string{"nil", "nil", "foreign", "foreign-types", "typed-bad"}).Draw(t, "parmode")
		c.ParVal = rapid.SampledFrom([]int{-1, 0, 1, 3, 7, 8, 100, 101, 255, 256, 1000, 1 << 30}).Draw(t, "parval")
		if rapid.IntRange(0, 2).Draw(t, "mix") == 0 {
			c.ParMode = rapid.SampledFrom([]string{"typed-mix", "foreign-mix"}).Draw(t, "mixmode")
			c.ParVals = map[string]int{}
			for _, k := range []string{"quality", "near", "predictor", "numLevels", "numLayers", "rate", "progressionOrder", "targetRatio", "blockWidth", "blockHeight"} {
				if rapid.IntRange(0, 2).Draw(t, "set") > 0 {
					c.ParVals[k] = rapid.SampledFrom([]int{-1, 0, 0, 1, 2, 4, 5, 7, 8, 16, 32, 64, 100, 101, 255, 256, 1000}).Draw(t, k)
				}
			}
		}
		need := 0
		if c.W*c.H > 0 && c.C < 16 && c.BA <= 64 {
			need = c.W * c.H * c.C * ((c.BA + 7) / 8)
		}
		if need > 1<<20 {
			need = 4096 // frames described as larger than a mebibyte only ever come with a short buffer
		}
		c.Buf = rapid.SampledFrom([]int{0, 1, need - 1, need, need, need + 1}).Draw(t, "buf")
		if c.Buf < 0 {
			c.Buf = 0
		}
		// one frame with Buf bytes among full-length ones (only for frames that fit a mebibyte)
		if c.Frames >= 2 && need > 0 && need <= 1<<20 && c.W*c.H*c.C*((c.BA+7)/8) == need {
			c.Short = rapid.IntRange(0, c.Frames).Draw(t, "short")
		}
		return c
	}
	c := &Case{Level: "pkg", Enc: rapid.SampledFrom(pkgEncs).Draw(t, "enc")}
	dims := append(append([]int{}, smallDims...), bigDims...)
	c.W = rapid.SampledFrom(dims).Draw(t, "w")
	c.H = rapid.SampledFrom(dims).Draw(t, "h")
	if c.W > 300 && c.H > 3 {
		c.H = rapid.SampledFrom([]int{-1, 0, 1, 2}).Draw(t, "h2")
	}
	if c.H > 300 && c.W > 3 {
		c.W = rapid.SampledFrom([]int{-1, 0, 1, 2}).Draw(t, "w2")
	}
	c.C = rapid.SampledFrom(compsSet).Draw(t, "comps")
	c.P = rapid.SampledFrom(depthSet).Draw(t, "depth")
	if c.Enc == "baseline" {
		c.P = 8
	}
	c.Arg = rapid.SampledFrom(argSet(c.Enc)).Draw(t, "arg")
	if c.Enc == "j2k" {
		c.Levels = rapid.SampledFrom([]int{-1, 0, 1, 5, 6, 7}).Draw(t, "levels")
		c.CBW = rapid.SampledFrom([]int{0, 2, 3, 4, 32, 48, 64, 1024, 2048}).Draw(t, "cbw")
		c.CBH = rapid.SampledFrom([]int{0, 2, 3, 4, 32, 48, 64, 1024, 2048}).Draw(t, "cbh")
		c.NilParams = rapid.IntRange(0, 9).Draw(t, "nilparams") == 0
		c.Lossy = rapid.Bool().Draw(t, "lossy")
	}
	c.Buf = rapid.SampledFrom(bufSet(c)).Draw(t, "buf")
	return c
}

func TestRapid(t *testing.T)  { core.RunRapid(t, ID, Gen, Check) }
func TestReplay(t *testing.T) { core.RunReplay(t, ID, &Case{}, Check) }

// TestLattice enumerates the small-dimension argument lattice of every package-level encoder
// completely, and the large-dimension corner separately (sharded).
func TestLattice(t *testing.T) {
	shard, shards := core.EnvInt("VERIF_SHARD", 0), max(1, core.EnvInt("VERIF_SHARDS", 1))
	n, total := 0, int64(0)
	eval := func(c *Case) {
		n++
		if n%shards != shard {
			return
		}
		cc := *c
		cj, _ := json.Marshal(&cc)
		clear := core.MarkPending(ID, cj)
		o := Check(&cc)
		clear()
		if o.Fail != nil {
			core.Eval(t, ID, "exhaustive", &cc, Check)
		}
		lab := "lattice-valid"
		if o.Has("must-reject") {
			lab = "lattice-must-reject"
		}
		core.RecordLight(uint64(n)<<8|7, true, lab)
		total++
	}
	for _, enc := range pkgEncs {
		depths := depthSet
		if enc == "baseline" {
			depths = []int{8}
		}
		for _, w := range smallDims {
			for _, h := range smallDims {
				for _, comps := range compsSet {
					for _, p := range depths {
						for _, arg := range argSet(enc) {
							c := &Case{Level: "pkg", Enc: enc, W: w, H: h, C: comps, P: p, Arg: arg, Levels: 1, CBW: 64, CBH: 64}
							for _, b := range bufSet(c) {
								c.Buf = b
								eval(c)
							}
						}
					}
				}
			}
		}
		for _, d := range bigDims {
			for _, swap := range []bool{false, true} {
				for _, comps := range []int{1, 3} {
					for _, p := range []int{8, 12, 16} {
						if enc == "baseline" && p != 8 {
							continue
						}
						c := &Case{Level: "pkg", Enc: enc, W: d, H: 1, C: comps, P: p, Arg: argSet(enc)[len(argSet(enc))/2], Levels: 1, CBW: 64, CBH: 64}
						if swap {
							c.W, c.H = 1, d
						}
						n0 := c.needed()
						for _, b := range []int{n0, n0 - 1} {
							c.Buf = b
							eval(c)
						}
					}
				}
			}
		}
	}
	// j2k parameter lattice
	for _, lv := range []int{-1, 0, 6, 7} {
		for _, cbw := range []int{0, 2, 3, 4, 48, 64, 1024, 2048} {
			for _, cbh := range []int{0, 2, 3, 4, 48, 64, 1024, 2048} {
				for _, lossy := range []bool{false, true} {
					c := &Case{Level: "pkg", Enc: "j2k", W: 5, H: 4, C: 1, P: 8, Levels: lv, CBW: cbw, CBH: cbh, Lossy: lossy, Buf: 20}
					eval(c)
				}
			}
		}
	}
	eval(&Case{Level: "pkg", Enc: "j2k", W: 5, H: 4, C: 1, P: 8, NilParams: true, Buf: 20})
	// codec level: the byte-plane lattice of the RLE codec (BitsAllocated x SamplesPerPixel, with the
	// values whose product wraps to a small number in 16-bit arithmetic) and the same frame
	// descriptions through every other codec
	for _, enc := range codecKeys {
		for _, ba := range []int{8, 16, 24, 32, 64} {
			for _, spp := range []int{1, 2, 3, 4, 5, 7, 8, 15, 16, 17, 16384, 21845, 21846, 32768, 32769, 65535} {
				if enc != "RLE" && spp > 4 && spp < 16384 {
					continue
				}
				for _, buf := range []int{64, 4 * (ba / 8) * min(spp, 64)} {
					eval(&Case{Level: "codec", Enc: enc, W: 2, H: 2, C: spp, BA: ba, BS: min(ba, 16), Frames: 1, ParMode: "nil", Buf: buf})
				}
			}
		}
	}
	// codec level: one short (or empty) frame at every position among full-length frames
	for _, enc := range codecKeys {
		for _, spp := range []int{1, 3} {
			for _, ba := range []int{8, 16} {
				if ba == 16 && (enc == "50" || enc == "51") {
					continue
				}
				need := 5 * 3 * spp * ba / 8
				for _, buf := range []int{0, 1, need / 2, need - 5*spp*ba/8, need - 1} {
					for frames := 1; frames <= 3; frames++ {
						for short := 1; short <= frames; short++ {
							eval(&Case{Level: "codec", Enc: enc, W: 5, H: 3, C: spp, BA: ba, BS: ba, Frames: frames, Short: short, ParMode: "nil", Buf: buf})
						}
					}
				}
			}
		}
	}
	core.ExhaustiveDone("argument lattice of the package-level encoders: dims {-1,0,1,2,3}^2 x comps 0..5 x depth set x argument set x buffer lengths, plus the 255..65537 dimension corner and the JPEG 2000 level/code-block lattice", int64(n))
	core.AddSample(map[string]any{"lattice": fmt.Sprintf("%d points", n)})
}
