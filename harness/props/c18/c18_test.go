// C18 Registered codecs are safe for concurrent use: generated concurrent workloads, run under
// the race detector (this package is always built with -race by the driver), compared job by
// job with the same job run alone.
package c18

import (
	"bytes"
	"fmt"
	"os"
	"path/filepath"
	"regexp"
	"runtime"
	"strings"
	"sync"
	"testing"
	"time"

	"github.com/cocosip/go-dicom-codecs/codec"
	_ "github.com/cocosip/go-dicom-codecs/jpeg/baseline"
	_ "github.com/cocosip/go-dicom-codecs/jpeg/extended"
	jl "github.com/cocosip/go-dicom-codecs/jpeg/lossless"
	_ "github.com/cocosip/go-dicom-codecs/jpeg/lossless14sv1"
	"github.com/cocosip/go-dicom-codecs/jpeg2000"
	_ "github.com/cocosip/go-dicom-codecs/jpeg2000/htj2k"
	_ "github.com/cocosip/go-dicom-codecs/jpeg2000/lossless"
	_ "github.com/cocosip/go-dicom-codecs/jpeg2000/lossy"
	jlsl "github.com/cocosip/go-dicom-codecs/jpegls/lossless"
	_ "github.com/cocosip/go-dicom-codecs/jpegls/nearlossless"
	_ "github.com/cocosip/go-dicom-codecs/rle"
	"github.com/cocosip/go-dicom/pkg/dicom/transfer"
	dcodec "github.com/cocosip/go-dicom/pkg/imaging/codec"
	"github.com/cocosip/go-dicom/pkg/imaging/imagetypes"
	"pgregory.net/rapid"

	"verif/harness/core"
	"verif/harness/gen"
)

const ID = "C18"

func TestMain(m *testing.M) { core.Main(m, ID) }

var codecTS = map[string]*transfer.Syntax{
	"RLE": transfer.RLELossless, "50": transfer.JPEGBaseline8Bit, "51": transfer.JPEGProcess2_4, "57": transfer.JPEGLossless, "70": transfer.JPEGLosslessSV1,
	"80": transfer.JPEGLSLossless, "81": transfer.JPEGLSNearLossless, "90": transfer.JPEG2000Lossless, "91": transfer.JPEG2000Lossy,
	"92": transfer.JPEG2000Part2MultiComponentLosslessOnly, "93": transfer.JPEG2000Part2MultiComponent, "201": transfer.HTJ2KLossless, "202": transfer.HTJ2KLosslessRPCL, "203": transfer.HTJ2K,
}
var codecKeys = []string{"RLE", "50", "51", "57", "70", "80", "81", "90", "91", "92", "93", "201", "202", "203"}

// Job is one concurrent call. Target is a transfer syntax key or a low-level entry
// ("j2kobj", "jlossless", "jls").
type Job struct {
	Target string
	Op     string // encode | decode
	Frame  int    // index into the frame pool
	Par    string // nil | private | shared
	Spin   int    // Gosched calls before the job starts (reproducible perturbation)
}

type Case struct {
	Procs int
	W, H  int
	SPP   int
	Seeds []uint64
	Jobs  []Job
	// Dims, when present, gives frame i of the pool its own size (a shared parameters object
	// then serves images of different geometry, as a Transcoder working through a study does)
	Dims [][2]int `json:",omitempty"`
	// Cold: the concurrent phases come first and the "run alone" references are computed
	// afterwards, so that the very first calls a process makes on a codec are concurrent ones
	// (lazily built tables, sync.Once-like guards). Jobs: the encode jobs, then decode jobs
	// whose inputs are the streams the encode jobs of the same frame returned.
	Cold bool `json:",omitempty"`
	// Bits / SPPs, when present, give frame i of the pool its own precision (BitsStored; the
	// container is one byte up to 8 bits, two above) and component count, so that one codec serves
	// calls of different depth at the same time (tables or caches keyed by precision, buffers
	// sized by bytes per sample). shape() narrows them to what the target supports.
	Bits []int `json:",omitempty"`
	SPPs []int `json:",omitempty"`
}

// shape returns the precision and component count of pool frame i as the target receives it.
func (c *Case) shape(target string, frame int) (bits, spp int) {
	bits, spp = 8, c.SPP
	k := frame % len(c.Seeds)
	if len(c.Bits) > 0 {
		bits = c.Bits[k%len(c.Bits)]
	}
	if len(c.SPPs) > 0 {
		spp = c.SPPs[k%len(c.SPPs)]
	}
	switch target {
	case "50":
		bits = 8
	case "51":
		if bits > 8 {
			bits, spp = 12, 1
		} else {
			bits = 8
		}
	case "RLE":
		if bits > 8 {
			bits = 16
		} else {
			bits = 8
		}
	}
	return
}

func (c *Case) dims(frame int) (int, int) {
	if len(c.Dims) > 0 {
		d := c.Dims[frame%len(c.Seeds)%len(c.Dims)]
		return d[0], d[1]
	}
	return c.W, c.H
}

func Gen(t *rapid.T) *Case {
	c := &Case{Procs: rapid.SampledFrom([]int{1, 2, 4, 16}).Draw(t, "procs"), W: rapid.IntRange(4, 20).Draw(t, "w"), H: rapid.IntRange(4, 20).Draw(t, "h"),
		SPP: rapid.SampledFrom([]int{1, 1, 3}).Draw(t, "spp")}
	np := rapid.IntRange(2, 5).Draw(t, "pool")
	for i := 0; i < np; i++ {
		c.Seeds = append(c.Seeds, rapid.Uint64().Draw(t, "seed"))
	}
	if rapid.Bool().Draw(t, "mixed-sizes") {
		for i := 0; i < np; i++ {
			// (128..144: the smallest sizes with a full 64x64 code-block at the default five levels)
			c.Dims = append(c.Dims, [2]int{rapid.OneOf(rapid.IntRange(1, 20), rapid.IntRange(33, 80), rapid.IntRange(128, 144)).Draw(t, "fw"),
				rapid.OneOf(rapid.IntRange(1, 20), rapid.IntRange(33, 80), rapid.IntRange(128, 144)).Draw(t, "fh")})
		}
	}
	if rapid.Bool().Draw(t, "mixed-depths") {
		for i := 0; i < np; i++ {
			c.Bits = append(c.Bits, rapid.SampledFrom([]int{8, 8, 10, 12, 16, 5}).Draw(t, "bits"))
			c.SPPs = append(c.SPPs, rapid.SampledFrom([]int{1, 1, 3}).Draw(t, "fspp"))
		}
	}
	maxJobs := 24
	if core.Thorough() {
		maxJobs = 64
	}
	nj := rapid.IntRange(2, maxJobs).Draw(t, "njobs")
	// a workload concentrates on few codecs so that instances are really shared
	nk := rapid.IntRange(1, 3).Draw(t, "ncodecs")
	targets := []string{}
	for i := 0; i < nk; i++ {
		targets = append(targets, rapid.SampledFrom(append(append([]string{}, codecKeys...), "j2kobj", "jlossless", "jls")).Draw(t, "target"))
	}
	for i := 0; i < nj; i++ {
		c.Jobs = append(c.Jobs, Job{Target: rapid.SampledFrom(targets).Draw(t, "jt"), Op: rapid.SampledFrom([]string{"encode", "encode", "decode"}).Draw(t, "op"),
			Frame: rapid.IntRange(0, np-1).Draw(t, "frame"), Par: rapid.SampledFrom([]string{"nil", "private", "shared", "shared"}).Draw(t, "par"),
			Spin: rapid.SampledFrom([]int{0, 0, 1, 3, 10, 50}).Draw(t, "spin")})
	}
	return c
}

func (c *Case) info(target string, frame int) *imagetypes.FrameInfo {
	bits, spp := c.shape(target, frame)
	pi := "MONOCHROME2"
	if spp == 3 {
		pi = "RGB"
	}
	ba := 8
	if bits > 8 {
		ba = 16
	}
	w, h := c.dims(frame)
	return &imagetypes.FrameInfo{Width: uint16(w), Height: uint16(h), BitsAllocated: uint16(ba), BitsStored: uint16(bits), HighBit: uint16(bits - 1), SamplesPerPixel: uint16(spp), PhotometricInterpretation: pi}
}

func (c *Case) frame(target string, i int) []byte {
	w, h := c.dims(i)
	bits, spp := c.shape(target, i)
	im := &gen.Image{W: w, H: h, C: spp, P: bits, Class: "noise", Seed: c.Seeds[i%len(c.Seeds)]}
	return im.Bytes()
}

type result struct {
	out []byte
	err string
}

func runJob(c *Case, j Job, shared map[string]dcodec.Parameters, encoded map[string][]byte) result {
	px := c.frame(j.Target, j.Frame)
	fw, fh := c.dims(j.Frame)
	bits, spp := c.shape(j.Target, j.Frame)
	switch j.Target {
	case "j2kobj":
		p := jpeg2000.DefaultEncodeParams(fw, fh, spp, bits, false)
		p.NumLevels = 2
		s, err := jpeg2000.NewEncoder(p).Encode(px)
		if err != nil {
			return result{err: err.Error()}
		}
		if j.Op == "encode" {
			return result{out: s}
		}
		d := jpeg2000.NewDecoder()
		if err := d.Decode(s); err != nil {
			return result{err: err.Error()}
		}
		return result{out: d.GetPixelData()}
	case "jlossless":
		s, err := jl.Encode(px, fw, fh, spp, bits, 4)
		if err != nil {
			return result{err: err.Error()}
		}
		if j.Op == "encode" {
			return result{out: s}
		}
		o, _, _, _, _, err := jl.Decode(s)
		if err != nil {
			return result{err: err.Error()}
		}
		return result{out: o}
	case "jls":
		s, err := jlsl.Encode(px, fw, fh, spp, bits)
		if err != nil {
			return result{err: err.Error()}
		}
		if j.Op == "encode" {
			return result{out: s}
		}
		o, _, _, _, _, err := jlsl.Decode(s)
		if err != nil {
			return result{err: err.Error()}
		}
		return result{out: o}
	}
	cd, ok := dcodec.GetGlobalRegistry().GetCodec(codecTS[j.Target])
	if !ok {
		return result{err: "not registered"}
	}
	var par dcodec.Parameters
	switch j.Par {
	case "private":
		par = cd.GetDefaultParameters()
	case "shared":
		par = shared[j.Target]
	}
	info := c.info(j.Target, j.Frame)
	src := codec.NewTestPixelData(info)
	if j.Op == "encode" {
		_ = src.AddFrame(px)
		dst := codec.NewTestPixelData(info)
		if err := cd.Encode(src, dst, par); err != nil {
			return result{err: err.Error()}
		}
		f, _ := dst.GetFrame(0)
		return result{out: f}
	}
	key := fmt.Sprintf("%s:%d", j.Target, j.Frame%len(c.Seeds))
	_ = src.AddFrame(append([]byte(nil), encoded[key]...))
	dst := codec.NewTestPixelData(info)
	if err := cd.Decode(src, dst, par); err != nil {
		return result{err: err.Error()}
	}
	f, _ := dst.GetFrame(0)
	return result{out: f}
}

var raceRe = regexp.MustCompile(`(?s)WARNING: DATA RACE.*?==================`)

// raceReports returns the race reports written since the last call (log_path of GORACE).
var raceSeen = map[string]int{}

func newRaceReports() []string {
	dir := os.Getenv("VERIF_OUT")
	if dir == "" {
		return nil
	}
	files, _ := filepath.Glob(filepath.Join(dir, "race.*"))
	var out []string
	for _, f := range files {
		b, err := os.ReadFile(f)
		if err != nil {
			continue
		}
		if len(b) > raceSeen[f] {
			out = append(out, raceRe.FindAllString(string(b[raceSeen[f]:]), -1)...)
			raceSeen[f] = len(b)
		}
	}
	return out
}

// raceSig names the innermost /repo frames of a report, or "" if the race lies entirely in the harness.
func raceSig(rep string) string {
	var fns []string
	for _, l := range strings.Split(rep, "\n") {
		l = strings.TrimSpace(l)
		if strings.HasPrefix(l, "github.com/cocosip/go-dicom-codecs/") {
			fn := strings.TrimPrefix(l, "github.com/cocosip/go-dicom-codecs/")
			if i := strings.LastIndex(fn, "("); i > 0 {
				fn = fn[:i]
			}
			if len(fns) == 0 || fns[len(fns)-1] != fn {
				fns = append(fns, fn)
			}
		}
	}
	if len(fns) == 0 {
		return ""
	}
	if len(fns) > 2 {
		fns = fns[:2]
	}
	return strings.Join(fns, " / ")
}

// runConcurrently starts the given jobs behind one gate and waits for all of them.
func runConcurrently(c *Case, idx []int, shared map[string]dcodec.Parameters, encoded map[string][]byte, conc []result) {
	var wg sync.WaitGroup
	gate := make(chan struct{})
	for _, i := range idx {
		wg.Add(1)
		go func(i int) {
			defer wg.Done()
			<-gate
			conc[i] = runJob(c, c.Jobs[i], shared, encoded)
		}(i)
	}
	close(gate)
	wg.Wait()
}

// checkCold: concurrent encodes, then concurrent decodes of their results, then the references.
// codecSnapshots renders every registered codec object with all its fields.
func codecSnapshots() map[string]string {
	m := map[string]string{}
	for _, k := range codecKeys {
		if cd, ok := dcodec.GetGlobalRegistry().GetCodec(codecTS[k]); ok {
			m[k] = core.Snapshot(cd)
		}
	}
	return m
}

// codecsUnchanged reports a codec object whose fields changed since the snapshot.
func codecsUnchanged(before map[string]string, o *core.Outcome) {
	if o.Fail != nil {
		return
	}
	after := codecSnapshots()
	for _, k := range codecKeys {
		if before[k] != after[k] {
			o.Fail = core.Failf("codec-field-changed", "the registered %s codec object changed during the workload: %s -> %s", k, before[k], after[k])
			return
		}
	}
}

func checkCold(c *Case) (o core.Outcome) {
	snap := codecSnapshots()
	defer func() { codecsUnchanged(snap, &o) }()
	prev := runtime.GOMAXPROCS(c.Procs)
	defer runtime.GOMAXPROCS(prev)
	o.Label("procs=%d", c.Procs)
	o.Label("cold-start")
	shared := map[string]dcodec.Parameters{}
	encoded := map[string][]byte{}
	conc := make([]result, len(c.Jobs))
	var encs, decs []int
	for i, j := range c.Jobs {
		o.Label("target=%s", j.Target)
		if j.Op == "encode" {
			encs = append(encs, i)
		} else {
			decs = append(decs, i)
		}
	}
	newRaceReports()
	runConcurrently(c, encs, shared, encoded, conc)
	for _, i := range encs {
		j := c.Jobs[i]
		encoded[fmt.Sprintf("%s:%d", j.Target, j.Frame%len(c.Seeds))] = conc[i].out
	}
	runConcurrently(c, decs, shared, encoded, conc)
	o.NonTrivial = len(encs) >= 2
	reports := newRaceReports()
	// references, one call at a time (decode references use the reference encodings)
	for _, i := range encs {
		j := c.Jobs[i]
		r := runJob(c, j, shared, encoded)
		if r.err != conc[i].err || !bytes.Equal(r.out, conc[i].out) {
			o.Fail = core.Failf("result-differs", "job %d (%+v): among the first, concurrent calls of the process the result differs from the same job run alone (err %q vs %q, %d vs %d bytes)", i, j, conc[i].err, r.err, len(conc[i].out), len(r.out))
			return
		}
	}
	for _, i := range decs {
		j := c.Jobs[i]
		r := runJob(c, j, shared, encoded)
		if r.err != conc[i].err || !bytes.Equal(r.out, conc[i].out) {
			o.Fail = core.Failf("result-differs", "job %d (%+v): among the first, concurrent calls of the process the result differs from the same job run alone (err %q vs %q, %d vs %d bytes)", i, j, conc[i].err, r.err, len(conc[i].out), len(r.out))
			return
		}
	}
	for _, rep := range reports {
		sig := raceSig(rep)
		if sig == "" {
			panic("harness: data race outside /repo:\n" + rep)
		}
		if len(rep) > 1800 {
			rep = rep[:1800]
		}
		o.Fail = &core.Failure{Kind: "data-race", Sig: sig, Msg: rep}
		return
	}
	return
}

func Check(c *Case) (o core.Outcome) {
	if c.Cold {
		return checkCold(c)
	}
	snap := codecSnapshots()
	defer func() { codecsUnchanged(snap, &o) }()
	prev := runtime.GOMAXPROCS(c.Procs)
	defer runtime.GOMAXPROCS(prev)
	o.Label("procs=%d", c.Procs)
	shared := map[string]dcodec.Parameters{}
	encoded := map[string][]byte{}
	// sequential phase: shared parameter objects, encoded inputs for decode jobs, solo results
	for _, k := range codecKeys {
		if cd, ok := dcodec.GetGlobalRegistry().GetCodec(codecTS[k]); ok {
			shared[k] = cd.GetDefaultParameters()
		}
	}
	for _, j := range c.Jobs {
		if _, low := map[string]bool{"j2kobj": true, "jlossless": true, "jls": true}[j.Target]; low {
			continue
		}
		key := fmt.Sprintf("%s:%d", j.Target, j.Frame%len(c.Seeds))
		if _, ok := encoded[key]; !ok {
			r := runJob(c, Job{Target: j.Target, Op: "encode", Frame: j.Frame, Par: "nil"}, shared, encoded)
			encoded[key] = r.out
		}
	}
	// "run alone": the same call with a parameters object in the state GetDefaultParameters()
	// returns it. The shared objects themselves are first used in the concurrent phase, so a
	// call that writes to the object it is given cannot hide behind an earlier solo run.
	solo := make([]result, len(c.Jobs))
	for i, j := range c.Jobs {
		sj := j
		if sj.Par == "shared" {
			sj.Par = "private"
		}
		solo[i] = runJob(c, sj, shared, encoded)
		o.Label("target=%s", j.Target)
		if j.Par == "shared" {
			o.Label("shared-params")
		}
	}
	newRaceReports() // discard anything from the sequential phase (there should be none)

	conc := make([]result, len(c.Jobs))
	starts, ends := make([]time.Time, len(c.Jobs)), make([]time.Time, len(c.Jobs))
	var wg sync.WaitGroup
	gate := make(chan struct{})
	for i, j := range c.Jobs {
		wg.Add(1)
		go func(i int, j Job) {
			defer wg.Done()
			<-gate
			for k := 0; k < j.Spin; k++ {
				runtime.Gosched()
			}
			starts[i] = time.Now()
			conc[i] = runJob(c, j, shared, encoded)
			ends[i] = time.Now()
		}(i, j)
	}
	close(gate)
	wg.Wait()

	overlap := false
	for a := range c.Jobs {
		for b := a + 1; b < len(c.Jobs); b++ {
			if c.Jobs[a].Target == c.Jobs[b].Target && starts[a].Before(ends[b]) && starts[b].Before(ends[a]) {
				overlap = true
			}
		}
	}
	if overlap {
		o.Label("overlapping-calls-on-one-codec")
	}
	o.NonTrivial = overlap
	for i := range c.Jobs {
		if conc[i].err != solo[i].err || !bytes.Equal(conc[i].out, solo[i].out) {
			o.Fail = core.Failf("result-differs", "job %d (%+v): concurrent result differs from the same job run alone (err %q vs %q, %d vs %d bytes)", i, c.Jobs[i], conc[i].err, solo[i].err, len(conc[i].out), len(solo[i].out))
			return
		}
	}
	for _, rep := range newRaceReports() {
		sig := raceSig(rep)
		if sig == "" {
			panic("harness: data race outside /repo:\n" + rep)
		}
		if len(rep) > 1800 {
			rep = rep[:1800]
		}
		o.Fail = &core.Failure{Kind: "data-race", Sig: sig, Msg: rep}
		return
	}
	// the sequential interleaving, after everything else has used the shared objects: each
	// shared-parameter call once more, one at a time
	for i, j := range c.Jobs {
		if j.Par != "shared" {
			continue
		}
		if r := runJob(c, j, shared, encoded); r.err != solo[i].err || !bytes.Equal(r.out, solo[i].out) {
			o.Fail = core.Failf("result-differs-after-sharing", "job %d (%+v, frame %v): with the shared parameters object, after the other calls used it, the result differs from the same job run alone (err %q vs %q, %d vs %d bytes)",
				i, j, c.Dims, r.err, solo[i].err, len(r.out), len(solo[i].out))
			return
		}
	}
	if len(c.Dims) > 0 {
		o.Label("mixed-frame-sizes")
	}
	if len(c.Bits) > 0 {
		o.Label("mixed-depths")
	}
	return
}

func TestRapid(t *testing.T) { core.RunRapid(t, ID, Gen, Check) }
func TestReplay(t *testing.T) {
	// a schedule-dependent failure may need several executions to show up again
	for i := 0; i < 20; i++ {
		core.RunReplay(t, ID, &Case{}, Check)
	}
}

// TestSharedParams: every codec, 8 concurrent Encode calls sharing one GetDefaultParameters() object (quota).
func TestSharedParams(t *testing.T) {
	shard, shards := core.EnvInt("VERIF_SHARD", 0), max(1, core.EnvInt("VERIF_SHARDS", 1))
	for ki, k := range codecKeys {
		if ki%shards != shard {
			continue
		}
		for _, procs := range []int{2, 16} {
			c := &Case{Procs: procs, W: 12, H: 9, SPP: 1, Seeds: []uint64{1, 2, 3}}
			for i := 0; i < 8; i++ {
				c.Jobs = append(c.Jobs, Job{Target: k, Op: []string{"encode", "decode"}[i%2], Frame: i % 3, Par: "shared", Spin: i % 3})
			}
			core.Eval(t, ID, "quota", c, Check)
			// the same with a pool of frames of very different sizes
			m := &Case{Procs: procs, W: 12, H: 9, SPP: 1, Seeds: []uint64{1, 2, 3}, Dims: [][2]int{{8, 8}, {64, 64}, {40, 3}}, Jobs: c.Jobs}
			core.Eval(t, ID, "quota", m, Check)
			// ... and of different precision and component count
			d := &Case{Procs: procs, W: 12, H: 9, SPP: 1, Seeds: []uint64{1, 2, 3}, Dims: [][2]int{{8, 8}, {33, 20}, {40, 3}}, Bits: []int{8, 12, 16}, SPPs: []int{1, 3, 1}, Jobs: c.Jobs}
			core.Eval(t, ID, "quota", d, Check)
			// large enough for full-size code-blocks in every sub-band position
			if k == "90" || k == "91" || k == "201" || k == "202" || k == "203" {
				l := &Case{Procs: procs, W: 12, H: 9, SPP: 1, Seeds: []uint64{1, 2, 3}, Dims: [][2]int{{136, 130}, {128, 128}, {160, 129}}, Jobs: c.Jobs}
				core.Eval(t, ID, "quota", l, Check)
			}
		}
	}
}

// TestColdStart: one process per target whose first calls on that target are 8 concurrent
// encodes of different frames, followed by 8 concurrent decodes (sharded so that every target
// gets a process of its own; a table that is built on first use instead of in init() is only
// ever unsafe there).
func TestColdStart(t *testing.T) {
	shard, shards := core.EnvInt("VERIF_SHARD", 0), max(1, core.EnvInt("VERIF_SHARDS", 1))
	seed := core.EnvInt("VERIF_SEED", 1)
	targets := append(append([]string{}, codecKeys...), "j2kobj", "jlossless", "jls")
	for idx, k := range targets {
		if idx%shards != shard {
			continue
		}
		// every depth twice: two first calls may build the same per-precision table, and calls of
		// different depth meet in whatever is keyed by precision
		c := &Case{Procs: 16, W: 24, H: 16, SPP: []int{1, 3}[(idx+seed)%2], Cold: true, Bits: []int{8, 12, 16, 10}}
		for i := 0; i < 8; i++ {
			c.Seeds = append(c.Seeds, uint64(seed*100+i))
		}
		for i := 0; i < 8; i++ {
			c.Jobs = append(c.Jobs, Job{Target: k, Op: "encode", Frame: i, Par: "nil"})
		}
		for i := 0; i < 8; i++ {
			c.Jobs = append(c.Jobs, Job{Target: k, Op: "decode", Frame: i, Par: "nil"})
		}
		core.Eval(t, ID, "quota", c, Check)
	}
}
