// C19 JPEG 2000 tiled images: exact reversible reconstruction for every tile grid.
package c19

import (
	"bytes"
	"testing"

	"pgregory.net/rapid"

	"verif/harness/core"
	"verif/harness/gen"
	"verif/harness/j2k"
)

const ID = "C19"

func TestMain(m *testing.M) { core.Main(m, ID) }

type Case struct {
	Img *gen.Image
	Cfg *j2k.Config
}

func maxDim() int {
	if core.Thorough() {
		return 600
	}
	return 96
}

// tileSize draws a tile size for an axis of length n from the shape classes of the property.
func tileSize(t *rapid.T, n int, label string) int {
	tiles := rapid.IntRange(1, 8).Draw(t, label+"tiles")
	base := (n + tiles - 1) / tiles
	var ts int
	switch rapid.IntRange(0, 5).Draw(t, label+"class") {
	case 0: // power of two
		ts = 1
		for ts*2 <= base {
			ts *= 2
		}
	case 1: // odd
		ts = base | 1
	case 2: // even non power
		ts = base &^ 1
		if ts == 0 {
			ts = 2
		}
	case 3: // last tile 1 sample wide
		if tiles > 1 && n > tiles {
			ts = (n - 1) / (tiles - 1)
			for ts > 1 && (n-1)%ts != 0 {
				ts--
			}
		} else {
			ts = base
		}
	case 4: // tiny tile (smaller than a code-block)
		ts = rapid.IntRange(1, 7).Draw(t, label+"tiny")
	default:
		ts = rapid.IntRange(1, n).Draw(t, label+"any")
	}
	if ts < 1 {
		ts = 1
	}
	if ts > n {
		ts = n
	}
	// bound the number of tiles per axis (cost) to 16
	for (n+ts-1)/ts > 16 {
		ts++
	}
	return ts
}

func Gen(t *rapid.T) *Case {
	md := maxDim()
	if rapid.IntRange(0, 3).Draw(t, "big") > 0 {
		md = 48
	}
	o := gen.ImageOpts{MaxDim: md, MaxArea: md * md, Comps: []int{1, 3}, PMin: 8, PMax: 16,
		Classes: []string{"noise", "noise", "noise", "twolevel", "gradient", "sparse", "lpgain"}, LiteralMax: 36}
	im := gen.ImageGen(o).Draw(t, "img")
	im.P = rapid.SampledFrom([]int{8, 12, 16}).Draw(t, "P")
	if im.Pix != nil {
		for i, v := range im.Pix {
			im.Pix[i] = v & (1<<uint(im.P) - 1)
		}
	}
	cb := j2k.CodeBlockGen().Draw(t, "cb")
	cfg := &j2k.Config{
		Levels: rapid.IntRange(0, 5).Draw(t, "levels"), CBW: cb[0], CBH: cb[1],
		Prog: rapid.IntRange(0, 4).Draw(t, "prog"), Layers: rapid.SampledFrom([]int{1, 1, 2, 3}).Draw(t, "layers"),
		MCT:  rapid.Bool().Draw(t, "mct"),
		TileW: tileSize(t, im.W, "x"), TileH: tileSize(t, im.H, "y"),
	}
	// Steering (DESIGN.md 4.2): the open findings KF-C19-1/2 cover tile grids whose origins are
	// not multiples of 2^levels or lie beyond the first code-block. 70 % of the cases are
	// constructed outside those classes so that the search keeps exercising multi-tile coding;
	// the rest stays free (and is matched against the findings at run time).
	if rapid.IntRange(0, 9).Draw(t, "steer") < 7 {
		m := 1 << uint(cfg.Levels)
		fit := func(n, cb int, label string) int {
			tiles := rapid.IntRange(2, 4).Draw(t, label+"st")
			// largest multiple of m with (tiles-1)*ts < cb
			maxTs := (cb - 1) / (tiles - 1) / m * m
			if maxTs < m {
				return n // cannot tile this axis inside the class: single tile
			}
			ts := m * rapid.IntRange(1, maxTs/m).Draw(t, label+"sk")
			if ts >= n {
				return n
			}
			for (n+ts-1)/ts > tiles { // too many tiles would push an origin past the code-block
				ts += m
			}
			if (((n+ts-1)/ts)-1)*ts >= cb || ts >= n {
				return n
			}
			return ts
		}
		cfg.TileW, cfg.TileH = fit(im.W, cfg.CBW, "x"), fit(im.H, cfg.CBH, "y")
	}
	if cfg.Layers > 1 && rapid.Bool().Draw(t, "globalrd") {
		// global PCRD across tiles with a final lossless layer
		cfg.AppendLossless = true
		cfg.TargetRatio = rapid.SampledFrom([]float64{2, 4, 10}).Draw(t, "ratio")
		cfg.PCRD = rapid.Bool().Draw(t, "pcrd")
	}
	return &Case{Img: im, Cfg: cfg}
}

func Check(c *Case) (o core.Outcome) {
	im, cfg := c.Img, c.Cfg
	px := im.Bytes()
	orig := append([]byte(nil), px...)
	ntx, nty := (im.W+cfg.TileW-1)/cfg.TileW, (im.H+cfg.TileH-1)/cfg.TileH
	o.NonTrivial = ntx*nty >= 2
	o.Label("P=%d", im.P)
	o.Label("comps=%d", im.C)
	o.Label("levels=%d", cfg.Levels)
	o.Label("layers=%d", cfg.Layers)
	o.Label("prog=%d", cfg.Prog)
	if ntx*nty >= 2 {
		o.Label("tiles>=2")
	}
	if ntx >= 3 {
		o.Label("tiles-in-row>=3")
	}
	if ntx*nty > 16 {
		o.Label("tiles>16")
	}
	if im.W%cfg.TileW != 0 {
		o.Label("partial-right")
	}
	if im.H%cfg.TileH != 0 {
		o.Label("partial-bottom")
	}
	if (ntx > 1 && cfg.TileW%2 == 1) || (nty > 1 && cfg.TileH%2 == 1) {
		o.Label("odd-tile-origin")
	}
	if cfg.TileW < cfg.CBW || cfg.TileH < cfg.CBH {
		o.Label("tile<codeblock")
	}
	if cfg.TargetRatio > 0 {
		o.Label("global-rd")
	}
	m := 1 << uint(cfg.Levels)
	if (ntx == 1 || cfg.TileW%m == 0) && (nty == 1 || cfg.TileH%m == 0) {
		o.Label("origins-aligned") // every tile origin is a multiple of 2^levels
	} else {
		o.Label("origins-unaligned")
	}
	if (ntx == 1 || (ntx-1)*cfg.TileW < cfg.CBW) && (nty == 1 || (nty-1)*cfg.TileH < cfg.CBH) {
		o.Label("tile-origins<codeblock") // every tile origin lies inside the first code-block column/row
	} else {
		o.Label("tile-origin>=codeblock")
	}
	if ntx*nty >= 2 && cfg.Layers >= 2 {
		o.Label("multitile&layers>=2")
	}
	if ntx*nty >= 2 && cfg.Layers == 1 {
		o.Label("multitile&layers=1")
	}
	if im.W%cfg.TileW == 1 || im.H%cfg.TileH == 1 {
		o.Label("last-tile-1-wide")
	}
	_, got, fail := j2k.RoundTrip(im, cfg, px)
	if fail != nil {
		o.Fail = fail
		return
	}
	if !bytes.Equal(px, orig) {
		o.Fail = core.Failf("input-modified", "Encode changed the pixel buffer")
		return
	}
	if !bytes.Equal(got, orig) {
		o.Fail = core.Failf("mismatch", "decoded samples differ: %s", j2k.FirstDiff(got, orig, im))
	}
	return
}

func TestRapid(t *testing.T)  { core.RunRapid(t, ID, Gen, Check) }
func TestReplay(t *testing.T) { core.RunReplay(t, ID, &Case{}, Check) }

// TestManyTiles: grids of more than 256 tiles (tile indices that no longer fit one byte; "any
// number of tiles per axis"), constructed inside the class where the unchanged tree holds: tile
// sizes that are multiples of 2^levels and all tile origins inside the first 64x64 code-block.
func TestManyTiles(t *testing.T) {
	g := rapid.Custom(func(t *rapid.T) *Case {
		lv := rapid.SampledFrom([]int{0, 0, 0, 1, 1, 1, 2}).Draw(t, "levels") // (2 levels: 4x4 tiles, 256 tiles at most)
		m := 1 << uint(lv)
		side := func(label string) (ts, n int) {
			ts = m * rapid.IntRange(1, max(1, 3/m)).Draw(t, label+"k")
			maxTiles := (63 / ts) + 1 // (tiles-1)*ts <= 63
			tiles := rapid.IntRange(min(12, maxTiles), maxTiles).Draw(t, label+"tiles")
			n = tiles*ts - rapid.IntRange(0, ts-1).Draw(t, label+"cut")
			return
		}
		tw, w := side("x")
		th, h := side("y")
		for ((w+tw-1)/tw)*((h+th-1)/th) <= 256 { // force the index past one byte
			if (w+tw-1)/tw < 63/tw+1 {
				w += tw
			} else if (h+th-1)/th < 63/th+1 {
				h += th
			} else {
				break
			}
		}
		im := &gen.Image{W: w, H: h, C: rapid.SampledFrom([]int{1, 1, 3}).Draw(t, "c"), P: rapid.SampledFrom([]int{8, 12, 16}).Draw(t, "P"), Class: "noise", Seed: rapid.Uint64().Draw(t, "seed")}
		cfg := &j2k.Config{Levels: lv, CBW: 64, CBH: 64, Prog: rapid.IntRange(0, 4).Draw(t, "prog"), Layers: rapid.SampledFrom([]int{1, 1, 2}).Draw(t, "layers"),
			MCT: rapid.Bool().Draw(t, "mct"), TileW: tw, TileH: th}
		return &Case{Img: im, Cfg: cfg}
	})
	core.RunSharded(t, ID, 16, 400, g, func(c *Case) core.Outcome {
		o := Check(c)
		if ((c.Img.W+c.Cfg.TileW-1)/c.Cfg.TileW)*((c.Img.H+c.Cfg.TileH-1)/c.Cfg.TileH) > 256 {
			o.Label("tiles>256")
		}
		return o
	})
}
