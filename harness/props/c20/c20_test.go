// C20 JPEG 2000 building blocks are exact inverses: MQ coder, EBCOT T1, 5/3 DWT, RCT.
package c20

import (
	"fmt"
	"testing"

	"github.com/cocosip/go-dicom-codecs/jpeg2000/colorspace"
	"github.com/cocosip/go-dicom-codecs/jpeg2000/mqc"
	"github.com/cocosip/go-dicom-codecs/jpeg2000/t1"
	"github.com/cocosip/go-dicom-codecs/jpeg2000/wavelet"
	"pgregory.net/rapid"

	"verif/harness/core"
)

const ID = "C20"

func TestMain(m *testing.M) { core.Main(m, ID) }

// Case is one experiment on one layer ("mq", "t1", "dwt", "rct").
type Case struct {
	Kind string
	// mq: a recipe (Seed, N, NCtx, Bias per context in percent) or literal Bits/Ctx
	N     int    `json:",omitempty"`
	NCtx  int    `json:",omitempty"`
	Bias  []int  `json:",omitempty"`
	RunLen int   `json:",omitempty"` // mq: long runs of one symbol (forces carries / 0xFF)
	Seed  uint64 `json:",omitempty"`
	Bits  []int  `json:",omitempty"`
	Ctx   []int  `json:",omitempty"`
	// t1 / dwt
	W, H    int   `json:",omitempty"`
	Orient  int   `json:",omitempty"`
	Style   int   `json:",omitempty"`
	MagBits int   `json:",omitempty"` // t1: magnitudes below 2^MagBits
	Density int   `json:",omitempty"` // t1: percent of non-zero coefficients
	Levels  int   `json:",omitempty"`
	X0, Y0  int   `json:",omitempty"`
	Vals    []int `json:",omitempty"` // literal coefficients / samples (small cases)
}

type sm struct{ s uint64 }

func (r *sm) next() uint64 {
	r.s += 0x9E3779B97F4A7C15
	z := r.s
	z = (z ^ (z >> 30)) * 0xBF58476D1CE4E5B9
	z = (z ^ (z >> 27)) * 0x94D049BB133111EB
	return z ^ (z >> 31)
}

// ---------------------------------------------------------------------------------------
// MQ

func (c *Case) mqSeq() (bits, ctx []int) {
	if c.Bits != nil {
		return c.Bits, c.Ctx
	}
	r := &sm{c.Seed}
	bits, ctx = make([]int, c.N), make([]int, c.N)
	cur, left := 0, 0
	for i := 0; i < c.N; i++ {
		x := int(r.next() % uint64(c.NCtx))
		ctx[i] = x
		if c.RunLen > 0 {
			if left == 0 {
				cur = int(r.next() & 1)
				left = 1 + int(r.next()%uint64(2*c.RunLen))
			}
			bits[i] = cur
			left--
			continue
		}
		b := 0
		if int(r.next()%100) < c.Bias[x%len(c.Bias)] {
			b = 1
		}
		bits[i] = b
	}
	return
}

func checkMQ(c *Case, o *core.Outcome) {
	bits, ctx := c.mqSeq()
	nctx := c.NCtx
	enc := mqc.NewMQEncoder(nctx)
	for i, b := range bits {
		enc.Encode(b, ctx[i])
	}
	data := enc.Flush()
	ff := 0
	for _, b := range data {
		if b == 0xFF {
			ff++
		}
	}
	o.NonTrivial = len(bits) >= 64 && ff >= 1
	for i := 0; i+1 < len(data); i++ {
		if data[i] == 0xFF && data[i+1] == 0x8F {
			o.Label("mq-output-has-FF8F")
			core.Count("mq_pairs_FF8F", 1)
		}
	}
	core.Count("mq_code_bytes", int64(len(data)))
	o.Label("mq")
	o.Label("mq-nctx=%d", nctx)
	if ff > 0 {
		o.Label("mq-output-has-FF")
	}
	if len(bits) >= 10000 {
		o.Label("mq-long")
	}
	for i := 0; i+1 < len(data); i++ {
		if data[i] == 0xFF && data[i+1] > 0x8F {
			o.Fail = core.Failf("mq-marker", "MQ output contains FF%02X at %d", data[i+1], i)
			return
		}
	}
	dec := mqc.NewMQDecoder(append([]byte(nil), data...), nctx)
	for i, b := range bits {
		if got := dec.Decode(ctx[i]); got != b {
			o.Fail = core.Failf("mq-mismatch", "symbol %d of %d (ctx %d): decoded %d, encoded %d", i, len(bits), ctx[i], got, b)
			return
		}
	}
}

// ---------------------------------------------------------------------------------------
// T1

func (c *Case) coeffs() []int32 {
	n := c.W * c.H
	out := make([]int32, n)
	if c.Vals != nil {
		for i := range out {
			if i < len(c.Vals) {
				out[i] = int32(c.Vals[i])
			}
		}
		return out
	}
	r := &sm{c.Seed}
	for i := range out {
		if int(r.next()%100) >= c.Density {
			continue
		}
		mag := int32(r.next() % (uint64(1) << uint(c.MagBits)))
		if r.next()%4 == 0 { // single-plane values
			mag = 1 << uint(r.next()%uint64(c.MagBits))
		}
		if r.next()&1 == 1 {
			mag = -mag
		}
		out[i] = mag
	}
	return out
}

func styleName(s int) string {
	n := ""
	for i, f := range []string{"lazy", "reset", "termall", "vsc", "pterm", "segsym"} {
		if s&(1<<uint(i)) != 0 {
			n += f + "+"
		}
	}
	if n == "" {
		return "none"
	}
	return n[:len(n)-1]
}

func checkT1(c *Case, o *core.Outcome) {
	data := c.coeffs()
	maxAbs := int32(0)
	for _, v := range data {
		if v < 0 {
			v = -v
		}
		if v > maxAbs {
			maxAbs = v
		}
	}
	o.Label("t1")
	o.Label("t1-style=%s", styleName(c.Style))
	o.Label("t1-orient=%d", c.Orient)
	if c.Style&t1.CblkStyleLazy != 0 && c.Style&t1.CblkStyleTermAll == 0 {
		o.Label("t1-lazy-without-termall")
	}
	if c.H%4 != 0 {
		o.Label("t1-height-not-multiple-of-4")
	}
	if maxAbs == 0 {
		o.Label("t1-all-zero")
		return
	}
	maxBitplane := 0
	for (int32(1) << uint(maxBitplane+1)) <= maxAbs {
		maxBitplane++
	}
	planes := maxBitplane + 1
	numPasses := 3*planes - 2
	o.NonTrivial = planes >= 2 && (c.H > 4 || c.Style != 0)
	if planes >= 5 {
		o.Label("t1-planes>=5") // lazy mode switches to raw passes below maxBitplane-3
	}
	enc := t1.NewT1Encoder(c.W, c.H, c.Style)
	enc.SetOrientation(c.Orient)
	passes, stream, err := enc.EncodeLayered(append([]int32(nil), data...), numPasses, 0, nil, uint8(c.Style))
	if err != nil {
		o.Fail = core.Failf("t1-encode-error", "%v", err)
		return
	}
	if len(passes) != numPasses {
		o.Fail = core.Failf("t1-passes", "encoder reports %d passes for %d bit-planes (want %d)", len(passes), planes, numPasses)
		return
	}
	lengths := make([]int, len(passes))
	for i, p := range passes {
		lengths[i] = p.Rate
		if lengths[i] > len(stream) {
			lengths[i] = len(stream)
		}
	}
	type route struct {
		name string
		run  func(d *t1.Decoder) error
	}
	routes := []route{
		{"layered(termall=style,reset=style)", func(d *t1.Decoder) error {
			return d.DecodeLayeredWithMode(stream, lengths, maxBitplane, 0, c.Style&t1.CblkStyleTermAll != 0, c.Style&t1.CblkStyleReset != 0)
		}},
		{"layered(termall=true)", func(d *t1.Decoder) error {
			return d.DecodeLayeredWithMode(stream, lengths, maxBitplane, 0, true, c.Style&t1.CblkStyleReset != 0)
		}},
		{"bitplane", func(d *t1.Decoder) error { return d.DecodeWithBitplane(stream, numPasses, maxBitplane, 0) }},
	}
	var why []string
	for _, r := range routes {
		res := core.Guard(func() *core.Failure {
			d := t1.NewT1Decoder(c.W, c.H, c.Style)
			d.SetOrientation(c.Orient)
			if err := r.run(d); err != nil {
				return core.Failf("t1-decode-error", "%v", err)
			}
			got := d.GetData()
			for i := range data {
				if got[i] != data[i] {
					return core.Failf("t1-mismatch", "coefficient %d: decoded %d, encoded %d", i, got[i], data[i])
				}
			}
			return nil
		})
		if res == nil {
			o.Label("t1-route=%s", r.name)
			return
		}
		why = append(why, r.name+": "+res.Kind+" "+res.Msg)
	}
	o.Fail = core.Failf("t1-mismatch", "no decode route reproduces the %dx%d block (style %s, %d planes): %v", c.W, c.H, styleName(c.Style), planes, why)
}

// ---------------------------------------------------------------------------------------
// DWT and RCT

func checkDWT(c *Case, o *core.Outcome) {
	n := c.W * c.H
	src := make([]int32, n)
	if c.Vals != nil {
		for i := range src {
			if i < len(c.Vals) {
				src[i] = int32(c.Vals[i])
			}
		}
	} else {
		r := &sm{c.Seed}
		for i := range src {
			src[i] = int32(r.next()%(1<<21)) - (1 << 20)
		}
	}
	o.Label("dwt")
	o.Label("dwt-levels=%d", c.Levels)
	o.Label("dwt-parity=%d%d", c.X0&1, c.Y0&1)
	o.NonTrivial = c.Levels >= 1 && min(c.W, c.H) >= 2
	if c.W == 1 || c.H == 1 {
		o.Label("dwt-strip")
	}
	work := append([]int32(nil), src...)
	wavelet.ForwardMultilevelWithParity(work, c.W, c.H, c.Levels, c.X0, c.Y0)
	wavelet.InverseMultilevelWithParity(work, c.W, c.H, c.Levels, c.X0, c.Y0)
	for i := range src {
		if work[i] != src[i] {
			o.Fail = core.Failf("dwt-mismatch", "sample %d (x=%d y=%d): %d after inverse(forward), was %d", i, i%c.W, i/c.W, work[i], src[i])
			return
		}
	}
}

func checkRCT(c *Case, o *core.Outcome) {
	o.Label("rct")
	n := len(c.Vals) / 3
	o.NonTrivial = n >= 1
	r, g, b := make([]int32, n), make([]int32, n), make([]int32, n)
	for i := 0; i < n; i++ {
		r[i], g[i], b[i] = int32(c.Vals[3*i]), int32(c.Vals[3*i+1]), int32(c.Vals[3*i+2])
		y, cb, cr := colorspace.RCTForward(r[i], g[i], b[i])
		r2, g2, b2 := colorspace.RCTInverse(y, cb, cr)
		if r2 != r[i] || g2 != g[i] || b2 != b[i] {
			o.Fail = core.Failf("rct-mismatch", "triple (%d,%d,%d) -> (%d,%d,%d) -> (%d,%d,%d)", r[i], g[i], b[i], y, cb, cr, r2, g2, b2)
			return
		}
	}
	y, cb, cr := colorspace.ApplyRCTToComponents(append([]int32(nil), r...), append([]int32(nil), g...), append([]int32(nil), b...))
	r2, g2, b2 := colorspace.ApplyInverseRCTToComponents(y, cb, cr)
	if len(r2) != n || len(g2) != n || len(b2) != n {
		o.Fail = core.Failf("rct-mismatch", "slice lengths %d,%d,%d after inverse, want %d", len(r2), len(g2), len(b2), n)
		return
	}
	for i := 0; i < n; i++ {
		if r2[i] != r[i] || g2[i] != g[i] || b2[i] != b[i] {
			o.Fail = core.Failf("rct-mismatch", "slice element %d differs after inverse(forward)", i)
			return
		}
	}
}

func Check(c *Case) (o core.Outcome) {
	switch c.Kind {
	case "mq":
		checkMQ(c, &o)
	case "mqbulk":
		checkMQBulk(c, &o)
	case "t1":
		checkT1(c, &o)
	case "dwt":
		checkDWT(c, &o)
	case "rct":
		checkRCT(c, &o)
	default:
		panic("harness: kind " + c.Kind)
	}
	return
}

// ---------------------------------------------------------------------------------------
// generators

func genMQ(t *rapid.T) *Case {
	c := &Case{Kind: "mq", NCtx: rapid.IntRange(1, 19).Draw(t, "nctx")}
	if rapid.IntRange(0, 3).Draw(t, "literal") == 0 {
		n := rapid.IntRange(0, 64).Draw(t, "n")
		c.Bits = rapid.SliceOfN(rapid.IntRange(0, 1), n, n).Draw(t, "bits")
		c.Ctx = rapid.SliceOfN(rapid.IntRange(0, c.NCtx-1), n, n).Draw(t, "ctx")
		if c.Bits == nil {
			c.Bits, c.Ctx = []int{}, []int{}
		}
		return c
	}
	maxN := 5000
	if core.Thorough() {
		maxN = 100000
	}
	c.N = rapid.SampledFrom([]int{64, 200, 1000, maxN / 5, maxN}).Draw(t, "N")
	c.Seed = rapid.Uint64().Draw(t, "seed")
	nb := rapid.IntRange(1, c.NCtx).Draw(t, "nbias")
	c.Bias = rapid.SliceOfN(rapid.SampledFrom([]int{0, 1, 5, 20, 50, 50, 80, 95, 99, 100}), nb, nb).Draw(t, "bias")
	if rapid.IntRange(0, 3).Draw(t, "runs") == 0 {
		c.RunLen = rapid.SampledFrom([]int{4, 30, 300, 3000}).Draw(t, "runlen")
	}
	return c
}

func genT1(t *rapid.T) *Case {
	c := &Case{Kind: "t1", Orient: rapid.IntRange(0, 3).Draw(t, "orient"), Style: rapid.IntRange(0, 63).Draw(t, "style")}
	hs := rapid.SampledFrom([]int{1, 2, 3, 4, 5, 6, 7, 8, 9, 13, 16, 31, 32, 33, 64}).Draw(t, "h")
	ws := rapid.SampledFrom([]int{1, 2, 3, 4, 5, 7, 8, 16, 17, 32, 64}).Draw(t, "w")
	if rapid.Bool().Draw(t, "anysize") {
		ws, hs = rapid.IntRange(1, 64).Draw(t, "wu"), rapid.IntRange(1, 64).Draw(t, "hu")
	}
	c.W, c.H = ws, hs
	if c.W*c.H <= 16 && rapid.Bool().Draw(t, "literal") {
		mb := rapid.IntRange(1, 10).Draw(t, "mb")
		c.Vals = rapid.SliceOfN(rapid.IntRange(-(1<<uint(mb))+1, 1<<uint(mb)-1), c.W*c.H, c.W*c.H).Draw(t, "vals")
		return c
	}
	c.MagBits = rapid.SampledFrom([]int{1, 2, 3, 5, 8, 12, 16, 24}).Draw(t, "magbits")
	c.Density = rapid.SampledFrom([]int{1, 5, 30, 70, 100}).Draw(t, "density")
	c.Seed = rapid.Uint64().Draw(t, "seed")
	return c
}

func genDWT(t *rapid.T) *Case {
	c := &Case{Kind: "dwt", Levels: rapid.IntRange(0, 8).Draw(t, "levels"), X0: rapid.IntRange(0, 7).Draw(t, "x0"), Y0: rapid.IntRange(0, 7).Draw(t, "y0")}
	c.W = rapid.OneOf(rapid.IntRange(1, 9), rapid.IntRange(1, 257)).Draw(t, "w")
	c.H = rapid.OneOf(rapid.IntRange(1, 9), rapid.IntRange(1, 257)).Draw(t, "h")
	if c.W*c.H <= 24 && rapid.Bool().Draw(t, "literal") {
		c.Vals = rapid.SliceOfN(rapid.IntRange(-(1 << 20), 1<<20), c.W*c.H, c.W*c.H).Draw(t, "vals")
	} else {
		c.Seed = rapid.Uint64().Draw(t, "seed")
	}
	return c
}

func genRCT(t *rapid.T) *Case {
	n := rapid.IntRange(0, 64).Draw(t, "n")
	v := rapid.SliceOfN(rapid.OneOf(rapid.IntRange(-(1<<28), 1<<28), rapid.SampledFrom([]int{-(1 << 28), 1 << 28, 0, -1, 1})), 3*n, 3*n).Draw(t, "vals")
	if v == nil {
		v = []int{}
	}
	return &Case{Kind: "rct", Vals: v}
}

func Gen(t *rapid.T) *Case {
	switch rapid.SampledFrom([]string{"mq", "mq", "t1", "t1", "t1", "dwt", "dwt", "rct"}).Draw(t, "kind") {
	case "mq":
		return genMQ(t)
	case "t1":
		return genT1(t)
	case "dwt":
		return genDWT(t)
	}
	return genRCT(t)
}

func TestRapid(t *testing.T)  { core.RunRapid(t, ID, Gen, Check) }
func TestReplay(t *testing.T) { core.RunReplay(t, ID, &Case{}, Check) }

// TestStyles visits each of the 64 code-block styles with a few generated blocks (quota).
func TestStyles(t *testing.T) {
	k := 4
	if core.Thorough() {
		k = 40
	}
	seed := core.EnvInt("VERIF_SEED", 1)
	g := rapid.Custom(genT1)
	for style := 0; style < 64; style++ {
		for i := 0; i < k; i++ {
			c := g.Example(seed*64000 + style*100 + i)
			c.Style = style
			if c.Vals == nil && c.MagBits < 5 {
				c.MagBits = 8 // at least 5 planes so that lazy mode reaches raw passes
			}
			core.Eval(t, ID, "quota", c, Check)
		}
	}
}

// TestRaw: dense blocks with many bit-planes in the 16 styles that combine arithmetic-coding
// bypass with termination of every pass. Each block then has 2 x (planes-4) raw passes, each
// flushed on its own; about one raw pass in two thousand ends on a byte boundary right after a
// stuffed 0xFF byte, the corner of the raw flush rule.
func TestRaw(t *testing.T) {
	shard, shards := core.EnvInt("VERIF_SHARD", 0), max(1, core.EnvInt("VERIF_SHARDS", 1))
	seed := core.EnvInt("VERIF_SEED", 1)
	n := 12000
	if core.Thorough() {
		n = 400000
	}
	g := rapid.Custom(func(t *rapid.T) *Case {
		st := t1.CblkStyleLazy | t1.CblkStyleTermAll | rapid.SampledFrom([]int{0, 2, 8, 10, 16, 18, 24, 26, 32, 34, 40, 42, 48, 50, 56, 58}).Draw(t, "rest")
		return &Case{Kind: "t1", Orient: rapid.IntRange(0, 3).Draw(t, "orient"), Style: st,
			W: rapid.SampledFrom([]int{4, 8, 16, 16, 32, 5, 13}).Draw(t, "w"), H: rapid.SampledFrom([]int{4, 8, 16, 16, 32, 1, 7}).Draw(t, "h"),
			MagBits: rapid.IntRange(8, 18).Draw(t, "magbits"), Density: rapid.SampledFrom([]int{100, 100, 70, 30}).Draw(t, "density"), Seed: rapid.Uint64().Draw(t, "seed")}
	})
	for i := 0; i < n; i++ {
		if i%shards != shard {
			continue
		}
		core.Eval(t, ID, "quota", g.Example(seed*1000003+i), Check)
	}
}

// TestExhaustive: MQ - all (bit, ctx in {0,1}) sequences of length <= 8 and all bit sequences of
// length 16 over one context; DWT - all 1-D signals of length <= 8 over {-2..2}, both parities.
func TestExhaustive(t *testing.T) {
	total := int64(0)
	for n := 1; n <= 8; n++ {
		for code := 0; code < 1<<uint(2*n); code++ {
			c := &Case{Kind: "mq", NCtx: 2, Bits: make([]int, n), Ctx: make([]int, n)}
			for i := 0; i < n; i++ {
				c.Bits[i] = code >> uint(2*i) & 1
				c.Ctx[i] = code >> uint(2*i+1) & 1
			}
			o := Check(c)
			if o.Fail != nil {
				core.Eval(t, ID, "exhaustive", c, Check)
			}
			core.RecordLight(uint64(code)<<8|uint64(n), true, "exhaustive-mq")
			total++
		}
	}
	core.ExhaustiveDone("MQ: all (bit,context) sequences of length 1..8 over 2 contexts", total)
	for code := 0; code < 1<<16; code++ {
		c := &Case{Kind: "mq", NCtx: 1, Bits: make([]int, 16), Ctx: make([]int, 16)}
		for i := 0; i < 16; i++ {
			c.Bits[i] = code >> uint(i) & 1
		}
		o := Check(c)
		if o.Fail != nil {
			core.Eval(t, ID, "exhaustive", c, Check)
		}
		core.RecordLight(uint64(code)<<8|0xF0, true, "exhaustive-mq")
	}
	core.ExhaustiveDone("MQ: all bit sequences of length 16 over one context", 65536)
	dw := int64(0)
	for n := 1; n <= 8; n++ {
		cnt := 1
		for i := 0; i < n; i++ {
			cnt *= 5
		}
		sig := make([]int32, n)
		for code := 0; code < cnt; code++ {
			x := code
			for i := range sig {
				sig[i] = int32(x%5) - 2
				x /= 5
			}
			for _, even := range []bool{true, false} {
				w := append([]int32(nil), sig...)
				wavelet.Forward53_1DWithParity(w, even)
				wavelet.Inverse53_1DWithParity(w, even)
				for i := range sig {
					if w[i] != sig[i] {
						c := &Case{Kind: "dwt", W: n, H: 1, Levels: 1, Vals: make([]int, n)}
						for k, v := range sig {
							c.Vals[k] = int(v)
						}
						if !even {
							c.X0 = 1
						}
						core.Eval(t, ID, "exhaustive", c, func(*Case) core.Outcome {
							return core.Outcome{NonTrivial: true, Fail: core.Failf("dwt-mismatch", "1-D signal %v parity even=%v: inverse(forward) = %v", sig, even, w)}
						})
					}
				}
				core.RecordLight(uint64(code)<<8|uint64(n)<<1|1<<40, n >= 2, "exhaustive-dwt")
				dw++
			}
		}
	}
	core.ExhaustiveDone("DWT 5/3: all 1-D signals of length 1..8 over {-2..2}, both origin parities", dw)
	core.AddSample(map[string]any{"exhaustive": "mq", "bits": fmt.Sprint([]int{1, 0, 1, 1}), "ctx": fmt.Sprint([]int{0, 1, 1, 0})})
}

// TestMQBulk: long random decision sequences (about 25 MB of MQ code bytes per shard and quick
// run). Some byte patterns of the coder are only reachable in bulk: the pair FF 8F - an 0xFF
// followed by a carry and four 1 bits, the largest value the stuffing rule allows - appears
// about once in 5 x 10^7 output bytes (counter mq_pairs_FF8F), and the decoder's marker test
// has to let it through.
func TestMQBulk(t *testing.T) {
	shard, shards := core.EnvInt("VERIF_SHARD", 0), max(1, core.EnvInt("VERIF_SHARDS", 1))
	seed := core.EnvInt("VERIF_SEED", 1)
	chunks := 192
	if core.Thorough() {
		chunks = 4096
	}
	for k := 0; k < chunks; k++ {
		if k%shards != shard {
			continue
		}
		c := &Case{Kind: "mqbulk", N: 1 << 24, NCtx: 19, Seed: uint64(seed)*1000003 + uint64(k)}
		core.Eval(t, ID, "quota", c, Check)
	}
}

// checkMQBulk encodes N decisions drawn on the fly from a xorshift generator (context i mod
// NCtx-ish, bit biased per context) and decodes them again with the generator restarted, so
// that no N-element slices are needed.
func checkMQBulk(c *Case, o *core.Outcome) {
	o.Label("mq")
	o.Label("mq-bulk")
	next := func(x *uint64) uint64 {
		*x ^= *x << 13
		*x ^= *x >> 7
		*x ^= *x << 17
		return *x
	}
	gen := func(x *uint64) (int, int) {
		v := next(x)
		ctx := int(v % uint64(c.NCtx))
		// per-context bias between about 6% and 94% ones
		thr := uint64(1+(ctx*7+int(c.Seed%5))%15) << 28
		b := 0
		if (v>>32)&0xFFFFFFFF < thr {
			b = 1
		}
		return b, ctx
	}
	st := c.Seed*2685821657736338717 + 88172645463325252
	if st == 0 {
		st = 1
	}
	enc := mqc.NewMQEncoder(c.NCtx)
	x := st
	for i := 0; i < c.N; i++ {
		b, cx := gen(&x)
		enc.Encode(b, cx)
	}
	data := enc.Flush()
	pairs := 0
	for i := 0; i+1 < len(data); i++ {
		if data[i] == 0xFF {
			if data[i+1] > 0x8F {
				o.Fail = core.Failf("mq-marker", "MQ output contains FF%02X at %d", data[i+1], i)
				return
			}
			if data[i+1] == 0x8F {
				pairs++
			}
		}
	}
	core.Count("mq_code_bytes", int64(len(data)))
	core.Count("mq_pairs_FF8F", int64(pairs))
	if pairs > 0 {
		o.Label("mq-output-has-FF8F")
	}
	o.NonTrivial = true
	dec := mqc.NewMQDecoder(append([]byte(nil), data...), c.NCtx)
	x = st
	for i := 0; i < c.N; i++ {
		b, cx := gen(&x)
		if got := dec.Decode(cx); got != b {
			o.Fail = core.Failf("mq-mismatch", "symbol %d of %d (ctx %d): decoded %d, encoded %d (%d code bytes, %d FF8F pairs)", i, c.N, cx, got, b, len(data), pairs)
			return
		}
	}
}
