// Package dctenc is an independent baseline-sequential JPEG (ITU-T T.81) encoder written
// from the standard: floating-point FDCT (A.3.3), quantisation with the Annex K tables
// scaled by the usual IJG quality rule, Huffman coding with the Annex K tables or per-image
// optimal tables (K.2), MCU interleaving for H,V in {1,2}, restart intervals (E.1.4) and
// JFIF / Adobe application segments. It shares no code with /repo. Its output is always
// validated by Go's image/jpeg in the checks that use it.
package dctenc

import (
	"errors"
	"math"

	"verif/harness/ref/t81"
)

// Opts selects the stream layout.
type Opts struct {
	W, H     int
	Gray     bool
	HY, VY   int  // luma sampling factors (1 or 2); chroma is always 1x1
	Quality  int  // 1..100
	Optimize bool // per-image optimal Huffman tables instead of Annex K
	DRI      int  // restart interval in MCUs (0 = none)
	JFIF     bool
	Adobe    bool // APP14 with transform = 1 (YCbCr)
	ZeroIDs  bool // component identifiers 0,1,2 instead of 1,2,3
	COM      bool
}

var lumQ = [64]int{16, 11, 10, 16, 24, 40, 51, 61, 12, 12, 14, 19, 26, 58, 60, 55, 14, 13, 16, 24, 40, 57, 69, 56, 14, 17, 22, 29, 51, 87, 80, 62,
	18, 22, 37, 56, 68, 109, 103, 77, 24, 35, 55, 64, 81, 104, 113, 92, 49, 64, 78, 87, 103, 121, 120, 101, 72, 92, 95, 98, 112, 100, 103, 99}
var chrQ = [64]int{17, 18, 24, 47, 99, 99, 99, 99, 18, 21, 26, 66, 99, 99, 99, 99, 24, 26, 56, 99, 99, 99, 99, 99, 47, 66, 99, 99, 99, 99, 99, 99,
	99, 99, 99, 99, 99, 99, 99, 99, 99, 99, 99, 99, 99, 99, 99, 99, 99, 99, 99, 99, 99, 99, 99, 99, 99, 99, 99, 99, 99, 99, 99, 99}

var zz = [64]int{0, 1, 8, 16, 9, 2, 3, 10, 17, 24, 32, 25, 18, 11, 4, 5, 12, 19, 26, 33, 40, 48, 41, 34, 27, 20, 13, 6, 7, 14, 21, 28,
	35, 42, 49, 56, 57, 50, 43, 36, 29, 22, 15, 23, 30, 37, 44, 51, 58, 59, 52, 45, 38, 31, 39, 46, 53, 60, 61, 54, 47, 55, 62, 63}

// Annex K.3 Huffman tables (BITS, HUFFVAL)
var dcLumBits = []int{0, 1, 5, 1, 1, 1, 1, 1, 1, 0, 0, 0, 0, 0, 0, 0}
var dcChrBits = []int{0, 3, 1, 1, 1, 1, 1, 1, 1, 1, 1, 0, 0, 0, 0, 0}
var dcVals = []byte{0, 1, 2, 3, 4, 5, 6, 7, 8, 9, 10, 11}
var acLumBits = []int{0, 2, 1, 3, 3, 2, 4, 3, 5, 5, 4, 4, 0, 0, 1, 0x7d}
var acLumVals = []byte{0x01, 0x02, 0x03, 0x00, 0x04, 0x11, 0x05, 0x12, 0x21, 0x31, 0x41, 0x06, 0x13, 0x51, 0x61, 0x07, 0x22, 0x71, 0x14, 0x32, 0x81, 0x91, 0xa1, 0x08, 0x23, 0x42, 0xb1, 0xc1, 0x15, 0x52, 0xd1, 0xf0, 0x24, 0x33, 0x62, 0x72, 0x82, 0x09, 0x0a, 0x16, 0x17, 0x18, 0x19, 0x1a, 0x25, 0x26, 0x27, 0x28, 0x29, 0x2a, 0x34, 0x35, 0x36, 0x37, 0x38, 0x39, 0x3a, 0x43, 0x44, 0x45, 0x46, 0x47, 0x48, 0x49, 0x4a, 0x53, 0x54, 0x55, 0x56, 0x57, 0x58, 0x59, 0x5a, 0x63, 0x64, 0x65, 0x66, 0x67, 0x68, 0x69, 0x6a, 0x73, 0x74, 0x75, 0x76, 0x77, 0x78, 0x79, 0x7a, 0x83, 0x84, 0x85, 0x86, 0x87, 0x88, 0x89, 0x8a, 0x92, 0x93, 0x94, 0x95, 0x96, 0x97, 0x98, 0x99, 0x9a, 0xa2, 0xa3, 0xa4, 0xa5, 0xa6, 0xa7, 0xa8, 0xa9, 0xaa, 0xb2, 0xb3, 0xb4, 0xb5, 0xb6, 0xb7, 0xb8, 0xb9, 0xba, 0xc2, 0xc3, 0xc4, 0xc5, 0xc6, 0xc7, 0xc8, 0xc9, 0xca, 0xd2, 0xd3, 0xd4, 0xd5, 0xd6, 0xd7, 0xd8, 0xd9, 0xda, 0xe1, 0xe2, 0xe3, 0xe4, 0xe5, 0xe6, 0xe7, 0xe8, 0xe9, 0xea, 0xf1, 0xf2, 0xf3, 0xf4, 0xf5, 0xf6, 0xf7, 0xf8, 0xf9, 0xfa}
var acChrBits = []int{0, 2, 1, 2, 4, 4, 3, 4, 7, 5, 4, 4, 0, 1, 2, 0x77}
var acChrVals = []byte{0x00, 0x01, 0x02, 0x03, 0x11, 0x04, 0x05, 0x21, 0x31, 0x06, 0x12, 0x41, 0x51, 0x07, 0x61, 0x71, 0x13, 0x22, 0x32, 0x81, 0x08, 0x14, 0x42, 0x91, 0xa1, 0xb1, 0xc1, 0x09, 0x23, 0x33, 0x52, 0xf0, 0x15, 0x62, 0x72, 0xd1, 0x0a, 0x16, 0x24, 0x34, 0xe1, 0x25, 0xf1, 0x17, 0x18, 0x19, 0x1a, 0x26, 0x27, 0x28, 0x29, 0x2a, 0x35, 0x36, 0x37, 0x38, 0x39, 0x3a, 0x43, 0x44, 0x45, 0x46, 0x47, 0x48, 0x49, 0x4a, 0x53, 0x54, 0x55, 0x56, 0x57, 0x58, 0x59, 0x5a, 0x63, 0x64, 0x65, 0x66, 0x67, 0x68, 0x69, 0x6a, 0x73, 0x74, 0x75, 0x76, 0x77, 0x78, 0x79, 0x7a, 0x82, 0x83, 0x84, 0x85, 0x86, 0x87, 0x88, 0x89, 0x8a, 0x92, 0x93, 0x94, 0x95, 0x96, 0x97, 0x98, 0x99, 0x9a, 0xa2, 0xa3, 0xa4, 0xa5, 0xa6, 0xa7, 0xa8, 0xa9, 0xaa, 0xb2, 0xb3, 0xb4, 0xb5, 0xb6, 0xb7, 0xb8, 0xb9, 0xba, 0xc2, 0xc3, 0xc4, 0xc5, 0xc6, 0xc7, 0xc8, 0xc9, 0xca, 0xd2, 0xd3, 0xd4, 0xd5, 0xd6, 0xd7, 0xd8, 0xd9, 0xda, 0xe2, 0xe3, 0xe4, 0xe5, 0xe6, 0xe7, 0xe8, 0xe9, 0xea, 0xf2, 0xf3, 0xf4, 0xf5, 0xf6, 0xf7, 0xf8, 0xf9, 0xfa}

func stdTable(bits []int, vals []byte) *t81.Table {
	t := &t81.Table{Vals: append([]byte(nil), vals...)}
	for i, b := range bits {
		t.Bits[i+1] = b
	}
	if err := t.Build(); err != nil {
		panic("dctenc: standard table: " + err.Error())
	}
	return t
}

func scaleQ(base [64]int, quality int) [64]int {
	s := 5000 / quality
	if quality >= 50 {
		s = 200 - 2*quality
	}
	var out [64]int
	for i, v := range base {
		q := (v*s + 50) / 100
		if q < 1 {
			q = 1
		}
		if q > 255 {
			q = 255
		}
		out[i] = q
	}
	return out
}

func fdct(in *[64]float64) (out [64]float64) {
	for v := 0; v < 8; v++ {
		for u := 0; u < 8; u++ {
			s := 0.0
			for y := 0; y < 8; y++ {
				for x := 0; x < 8; x++ {
					s += in[y*8+x] * math.Cos(float64(2*x+1)*float64(u)*math.Pi/16) * math.Cos(float64(2*y+1)*float64(v)*math.Pi/16)
				}
			}
			cu, cv := 1.0, 1.0
			if u == 0 {
				cu = math.Sqrt2 / 2
			}
			if v == 0 {
				cv = math.Sqrt2 / 2
			}
			out[v*8+u] = s * cu * cv / 4
		}
	}
	return
}

type plane struct {
	w, h int // in samples, padded to whole MCUs
	pix  []float64
}

func category(v int) int {
	if v < 0 {
		v = -v
	}
	n := 0
	for v > 0 {
		n++
		v >>= 1
	}
	return n
}

type bitw struct {
	out []byte
	acc uint32
	n   int
}

func (b *bitw) put(code, size int) {
	for i := size - 1; i >= 0; i-- {
		b.acc = b.acc<<1 | uint32(code>>uint(i)&1)
		b.n++
		if b.n == 8 {
			b.out = append(b.out, byte(b.acc))
			if byte(b.acc) == 0xFF {
				b.out = append(b.out, 0)
			}
			b.acc, b.n = 0, 0
		}
	}
}
func (b *bitw) flush() {
	for b.n != 0 {
		b.put(1, 1)
	}
}

func seg(out []byte, marker byte, payload []byte) []byte {
	l := len(payload) + 2
	out = append(out, 0xFF, marker, byte(l>>8), byte(l))
	return append(out, payload...)
}

// Encode encodes an image given as 8-bit samples: gray (W*H) or YCbCr interleaved (W*H*3).
func Encode(o Opts, samples []byte) ([]byte, error) {
	if o.W < 1 || o.H < 1 || o.W > 65535 || o.H > 65535 || o.Quality < 1 || o.Quality > 100 {
		return nil, errors.New("dctenc: bad options")
	}
	nc := 3
	hy, vy := o.HY, o.VY
	if o.Gray {
		nc, hy, vy = 1, 1, 1
	}
	if hy < 1 || hy > 2 || vy < 1 || vy > 2 {
		return nil, errors.New("dctenc: sampling factors must be 1 or 2")
	}
	mcuW, mcuH := 8*hy, 8*vy
	mx, my := (o.W+mcuW-1)/mcuW, (o.H+mcuH-1)/mcuH
	// component planes at their own resolution, edge-replicated to whole MCUs
	planes := make([]plane, nc)
	for c := 0; c < nc; c++ {
		sx, sy := 1, 1 // subsampling of this component relative to the image
		if c > 0 {
			sx, sy = hy, vy
		}
		pw, ph := mx*mcuW/sx, my*mcuH/sy
		p := plane{w: pw, h: ph, pix: make([]float64, pw*ph)}
		cw, chh := (o.W+sx-1)/sx, (o.H+sy-1)/sy // true component size (ceil)
		for y := 0; y < ph; y++ {
			for x := 0; x < pw; x++ {
				xx, yy := min(x, cw-1), min(y, chh-1)
				// box average of the sx x sy source samples (edge-clamped)
				s, n := 0.0, 0
				for dy := 0; dy < sy; dy++ {
					for dx := 0; dx < sx; dx++ {
						ix, iy := min(xx*sx+dx, o.W-1), min(yy*sy+dy, o.H-1)
						s += float64(samples[(iy*o.W+ix)*nc+c])
						n++
					}
				}
				p.pix[y*pw+x] = math.Floor(s/float64(n) + 0.5)
			}
		}
		planes[c] = p
	}
	qt := [2][64]int{scaleQ(lumQ, o.Quality), scaleQ(chrQ, o.Quality)}
	// quantised coefficients per MCU in scan order
	type blk struct {
		comp int
		co   [64]int
	}
	var blocks []blk
	mcuStart := []int{}
	for myi := 0; myi < my; myi++ {
		for mxi := 0; mxi < mx; mxi++ {
			mcuStart = append(mcuStart, len(blocks))
			for c := 0; c < nc; c++ {
				bh, bv := 1, 1
				if c == 0 {
					bh, bv = hy, vy
				}
				for by := 0; by < bv; by++ {
					for bx := 0; bx < bh; bx++ {
						var in [64]float64
						p := planes[c]
						ox, oy := (mxi*bh+bx)*8, (myi*bv+by)*8
						for y := 0; y < 8; y++ {
							for x := 0; x < 8; x++ {
								in[y*8+x] = p.pix[(oy+y)*p.w+ox+x] - 128
							}
						}
						f := fdct(&in)
						var b blk
						b.comp = c
						q := qt[0]
						if c > 0 {
							q = qt[1]
						}
						for k := 0; k < 64; k++ {
							n := zz[k]
							b.co[k] = int(math.Floor(f[n]/float64(q[n]) + 0.5))
						}
						blocks = append(blocks, b)
					}
				}
			}
		}
	}
	// symbol statistics (for optimal tables) and coding
	nmcu := mx * my
	type sym struct{ tab, s, bits, nbits int } // tab 0 dcLum 1 acLum 2 dcChr 3 acChr
	var syms []sym
	restartAt := map[int]bool{} // index into syms where an RSTn precedes
	pred := make([]int, nc)
	for m := 0; m < nmcu; m++ {
		if o.DRI > 0 && m > 0 && m%o.DRI == 0 {
			restartAt[len(syms)] = true
			for i := range pred {
				pred[i] = 0
			}
		}
		end := len(blocks)
		if m+1 < nmcu {
			end = mcuStart[m+1]
		}
		for _, b := range blocks[mcuStart[m]:end] {
			tb := 0
			if b.comp > 0 {
				tb = 2
			}
			d := b.co[0] - pred[b.comp]
			pred[b.comp] = b.co[0]
			s := category(d)
			bits := d
			if d < 0 {
				bits = d + (1 << uint(s)) - 1
			}
			syms = append(syms, sym{tb, s, bits, s})
			run := 0
			for k := 1; k < 64; k++ {
				v := b.co[k]
				if v == 0 {
					run++
					continue
				}
				for run > 15 {
					syms = append(syms, sym{tb + 1, 0xF0, 0, 0})
					run -= 16
				}
				s := category(v)
				if s > 10 {
					return nil, errors.New("dctenc: AC coefficient out of baseline range")
				}
				bits := v
				if v < 0 {
					bits = v + (1 << uint(s)) - 1
				}
				syms = append(syms, sym{tb + 1, run<<4 | s, bits, s})
				run = 0
			}
			if run > 0 {
				syms = append(syms, sym{tb + 1, 0, 0, 0})
			}
		}
	}
	var tabs [4]*t81.Table
	if o.Optimize {
		var freq [4][]int
		for i := range freq {
			freq[i] = make([]int, 256)
		}
		for _, s := range syms {
			freq[s.tab][s.s]++
		}
		for i := range tabs {
			used := false
			for _, f := range freq[i] {
				if f > 0 {
					used = true
				}
			}
			if !used {
				continue
			}
			t, err := t81.FromLengths(t81.OptimalLengths(freq[i]), false)
			if err != nil {
				return nil, err
			}
			tabs[i] = t
		}
	} else {
		tabs = [4]*t81.Table{stdTable(dcLumBits, dcVals), stdTable(acLumBits, acLumVals), stdTable(dcChrBits, dcVals), stdTable(acChrBits, acChrVals)}
	}
	// ---- write the stream
	out := []byte{0xFF, 0xD8}
	if o.JFIF {
		out = seg(out, 0xE0, []byte{'J', 'F', 'I', 'F', 0, 1, 1, 0, 0, 1, 0, 1, 0, 0})
	}
	if o.Adobe {
		out = seg(out, 0xEE, []byte{'A', 'd', 'o', 'b', 'e', 0, 100, 0, 0, 0, 0, 1})
	}
	if o.COM {
		out = seg(out, 0xFE, []byte("reference encoder \xff\xd8 not a marker"))
	}
	for t := 0; t < 2; t++ {
		if t == 1 && o.Gray {
			break
		}
		p := []byte{byte(t)}
		for k := 0; k < 64; k++ {
			p = append(p, byte(qt[t][zz[k]]))
		}
		out = seg(out, 0xDB, p)
	}
	id0 := byte(1)
	if o.ZeroIDs {
		id0 = 0
	}
	sof := []byte{8, byte(o.H >> 8), byte(o.H), byte(o.W >> 8), byte(o.W), byte(nc)}
	for c := 0; c < nc; c++ {
		hv, tq := byte(0x11), byte(1)
		if c == 0 {
			hv, tq = byte(hy<<4|vy), 0
		}
		sof = append(sof, id0+byte(c), hv, tq)
	}
	out = seg(out, 0xC0, sof)
	for i, t := range tabs {
		if t == nil || (o.Gray && i >= 2) {
			continue
		}
		p := []byte{byte((i&1)<<4 | i>>1)}
		for l := 1; l <= 16; l++ {
			p = append(p, byte(t.Bits[l]))
		}
		p = append(p, t.Vals...)
		out = seg(out, 0xC4, p)
	}
	if o.DRI > 0 {
		out = seg(out, 0xDD, []byte{byte(o.DRI >> 8), byte(o.DRI)})
	}
	sos := []byte{byte(nc)}
	for c := 0; c < nc; c++ {
		sel := byte(0x00)
		if c > 0 {
			sel = 0x11
		}
		sos = append(sos, id0+byte(c), sel)
	}
	sos = append(sos, 0, 63, 0)
	out = seg(out, 0xDA, sos)
	bw := &bitw{}
	rst := 0
	for i, s := range syms {
		if restartAt[i] {
			bw.flush()
			out = append(out, bw.out...)
			out = append(out, 0xFF, byte(0xD0+rst%8))
			rst++
			bw = &bitw{}
		}
		t := tabs[s.tab]
		code, size, ok := t.Code(s.s)
		if !ok {
			return nil, errors.New("dctenc: symbol without code")
		}
		bw.put(code, size)
		if s.nbits > 0 {
			bw.put(s.bits, s.nbits)
		}
	}
	bw.flush()
	out = append(out, bw.out...)
	return append(out, 0xFF, 0xD9), nil
}
