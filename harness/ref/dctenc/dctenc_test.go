package dctenc

import (
	"bytes"
	"image"
	"image/jpeg"
	"testing"

	"pgregory.net/rapid"
)

// Every stream of the reference encoder must be accepted by image/jpeg and reproduce the
// source within the quantisation error at quality 100 (validates MCU order, tables, restarts).
func TestAcceptedByImageJPEG(t *testing.T) {
	rapid.Check(t, func(t *rapid.T) {
		o := Opts{W: rapid.IntRange(1, 40).Draw(t, "w"), H: rapid.IntRange(1, 40).Draw(t, "h"), Gray: rapid.Bool().Draw(t, "gray"),
			HY: rapid.IntRange(1, 2).Draw(t, "hy"), VY: rapid.IntRange(1, 2).Draw(t, "vy"), Quality: rapid.SampledFrom([]int{1, 50, 90, 100}).Draw(t, "q"),
			Optimize: rapid.Bool().Draw(t, "opt"), DRI: rapid.SampledFrom([]int{0, 0, 1, 2, 5}).Draw(t, "dri"), JFIF: rapid.Bool().Draw(t, "jfif"),
			Adobe: rapid.Bool().Draw(t, "adobe"), ZeroIDs: rapid.Bool().Draw(t, "ids"), COM: rapid.Bool().Draw(t, "com")}
		nc := 3
		if o.Gray {
			nc = 1
		}
		px := rapid.SliceOfN(rapid.Byte(), o.W*o.H*nc, o.W*o.H*nc).Draw(t, "px")
		if rapid.Bool().Draw(t, "smooth") {
			for i := range px {
				px[i] = byte(100 + (i/nc)%o.W + i%nc*10)
			}
		}
		s, err := Encode(o, px)
		if err != nil {
			t.Fatal(err)
		}
		img, err := jpeg.Decode(bytes.NewReader(s))
		if err != nil {
			t.Fatalf("image/jpeg rejects the reference stream: %v", err)
		}
		if img.Bounds().Dx() != o.W || img.Bounds().Dy() != o.H {
			t.Fatalf("bounds %v", img.Bounds())
		}
		if o.Quality == 100 && (o.Gray || (o.HY == 1 && o.VY == 1)) {
			for y := 0; y < o.H; y++ {
				for x := 0; x < o.W; x++ {
					switch im := img.(type) {
					case *image.Gray:
						d := int(im.GrayAt(x, y).Y) - int(px[y*o.W+x])
						if d < -3 || d > 3 {
							t.Fatalf("gray (%d,%d) off by %d", x, y, d)
						}
					case *image.YCbCr:
						c := im.YCbCrAt(x, y)
						for k, v := range []uint8{c.Y, c.Cb, c.Cr} {
							d := int(v) - int(px[(y*o.W+x)*3+k])
							if d < -3 || d > 3 {
								t.Fatalf("ycbcr (%d,%d,%d) off by %d", x, y, k, d)
							}
						}
					}
				}
			}
		}
	})
}
