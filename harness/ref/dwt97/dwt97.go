// Package dwt97 is an independent implementation of the irreversible 9/7 inverse wavelet
// transform of ITU-T T.800 Annex F (lifting with the standard's K normalisation, whole-sample
// symmetric extension, tile origin (0,0)), used to compute exact L1 synthesis gains: for
// every sample position the sum over all coefficients of a sub-band of the absolute value of
// that coefficient's synthesis response. These gains turn declared quantisation step sizes
// into a per-sample worst-case reconstruction error (property C12). No code is shared with /repo.
package dwt97

import "math"

const (
	alpha = -1.586134342059924
	beta  = -0.052980118572961
	gamma = 0.882911075530934
	delta = 0.443506852043971
	kk    = 1.230174104914001
)

func reflect(i, n int) int {
	if n == 1 {
		return 0
	}
	p := 2 * (n - 1)
	i %= p
	if i < 0 {
		i += p
	}
	if i >= n {
		i = p - i
	}
	return i
}

// Inverse1D reconstructs n samples from low (ceil(n/2)) and high (floor(n/2)) coefficients.
func Inverse1D(low, high []float64) []float64 {
	n := len(low) + len(high)
	x := make([]float64, n)
	if n == 1 {
		x[0] = low[0]
		return x
	}
	for i := range low {
		x[2*i] = kk * low[i]
	}
	for i := range high {
		x[2*i+1] = high[i] / kk
	}
	at := func(i int) float64 { return x[reflect(i, n)] }
	for i := 0; i < n; i += 2 {
		x[i] -= delta * (at(i-1) + at(i+1))
	}
	for i := 1; i < n; i += 2 {
		x[i] -= gamma * (at(i-1) + at(i+1))
	}
	for i := 0; i < n; i += 2 {
		x[i] -= beta * (at(i-1) + at(i+1))
	}
	for i := 1; i < n; i += 2 {
		x[i] -= alpha * (at(i-1) + at(i+1))
	}
	return x
}

// Forward1D is the matching analysis (used only by the self-test).
func Forward1D(x []float64) (low, high []float64) {
	n := len(x)
	if n == 1 {
		return []float64{x[0]}, nil
	}
	y := append([]float64(nil), x...)
	at := func(i int) float64 { return y[reflect(i, n)] }
	for i := 1; i < n; i += 2 {
		y[i] += alpha * (at(i-1) + at(i+1))
	}
	for i := 0; i < n; i += 2 {
		y[i] += beta * (at(i-1) + at(i+1))
	}
	for i := 1; i < n; i += 2 {
		y[i] += gamma * (at(i-1) + at(i+1))
	}
	for i := 0; i < n; i += 2 {
		y[i] += delta * (at(i-1) + at(i+1))
	}
	for i := 0; i < n; i += 2 {
		low = append(low, y[i]/kk)
	}
	for i := 1; i < n; i += 2 {
		high = append(high, y[i]*kk)
	}
	return
}

// Gains1D holds, for a signal of length n decomposed L times, the per-position L1 gains
// Low[l][x] and High[l][x] of the level-l (1..L) low-pass and high-pass coefficient sets.
// Low[0][x] = 1 (the signal itself).
type Gains1D struct {
	N, L      int
	Low, High [][]float64
	Sizes     []int // Sizes[l] = number of low-pass samples after l levels (Sizes[0] = n)
}

// ComputeGains1D computes exact gains by pushing unit impulses through the inverse transform.
func ComputeGains1D(n, levels int) *Gains1D {
	g := &Gains1D{N: n, L: levels, Low: make([][]float64, levels+1), High: make([][]float64, levels+1)}
	g.Sizes = make([]int, levels+1)
	g.Sizes[0] = n
	for l := 1; l <= levels; l++ {
		g.Sizes[l] = (g.Sizes[l-1] + 1) / 2
	}
	g.Low[0] = make([]float64, n)
	for i := range g.Low[0] {
		g.Low[0][i] = 1
	}
	// up(l, v): synthesise a level-l low-pass vector (length Sizes[l]) up to the signal domain
	up := func(l int, v []float64) []float64 {
		for ; l >= 1; l-- {
			v = Inverse1D(v, make([]float64, g.Sizes[l-1]-g.Sizes[l]))
		}
		return v
	}
	for l := 1; l <= levels; l++ {
		nl, nh := g.Sizes[l], g.Sizes[l-1]-g.Sizes[l]
		g.Low[l] = make([]float64, n)
		g.High[l] = make([]float64, n)
		for k := 0; k < nl; k++ {
			v := make([]float64, nl)
			v[k] = 1
			r := up(l, v)
			for x := range r {
				g.Low[l][x] += math.Abs(r[x])
			}
		}
		for k := 0; k < nh; k++ {
			hv := make([]float64, nh)
			hv[k] = 1
			r := up(l-1, Inverse1D(make([]float64, nl), hv))
			for x := range r {
				g.High[l][x] += math.Abs(r[x])
			}
		}
	}
	return g
}

// BandGain returns the 2-D L1 gain at (x,y) of sub-band index b in QCD order
// (0 = LL, then HL,LH,HH of the coarsest level L, ..., finest level 1).
func BandGain(gx, gy *Gains1D, b, x, y int) float64 {
	L := gx.L
	if b == 0 {
		return gx.Low[L][x] * gy.Low[L][y]
	}
	res := (b-1)/3 + 1 // resolution 1..L
	level := L - res + 1
	switch (b - 1) % 3 {
	case 0: // HL: horizontally high, vertically low
		return gx.High[level][x] * gy.Low[level][y]
	case 1: // LH
		return gx.Low[level][x] * gy.High[level][y]
	}
	return gx.High[level][x] * gy.High[level][y]
}

// BandLog2Gain is the nominal range gain of T.800 Table E.1 (LL 0, HL/LH 1, HH 2).
func BandLog2Gain(b int) int {
	if b == 0 {
		return 0
	}
	if (b-1)%3 == 2 {
		return 2
	}
	return 1
}
