package dwt97

import (
	"math"
	"testing"
)

func TestPerfectReconstruction(t *testing.T) {
	for n := 1; n <= 40; n++ {
		x := make([]float64, n)
		for i := range x {
			x[i] = math.Sin(float64(i*i)) * 100
		}
		lo, hi := Forward1D(x)
		y := Inverse1D(lo, hi)
		for i := range x {
			if math.Abs(x[i]-y[i]) > 1e-9 {
				t.Fatalf("n=%d i=%d %g != %g", n, i, x[i], y[i])
			}
		}
	}
}

// DC gain of the low-pass synthesis is 1 (constant low band -> constant signal), so the
// low gains of interior positions must be >= 1, and high-pass Nyquist gain normalisation 2.
func TestNormalisation(t *testing.T) {
	lo := make([]float64, 16)
	for i := range lo {
		lo[i] = 1
	}
	x := Inverse1D(lo, make([]float64, 16))
	for i := 4; i < 28; i++ {
		if math.Abs(x[i]-1) > 1e-9 {
			t.Fatalf("DC gain at %d = %g", i, x[i])
		}
	}
	// analysis of the alternating signal (+1,-1,...) gives high-pass magnitude 2
	s := make([]float64, 32)
	for i := range s {
		s[i] = 1 - 2*float64(i&1)
	}
	_, hi := Forward1D(s)
	if math.Abs(math.Abs(hi[8])-2) > 1e-6 {
		t.Fatalf("Nyquist gain %g", hi[8])
	}
}
