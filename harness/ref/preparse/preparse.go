// Package preparse is the independent header pre-parser of property C09: it finds the first
// frame header (SOFn / SOF55 / SIZ) of a byte string and reports the number of samples S it
// declares, reading every field generously (saturating arithmetic, every plausible reading of
// the SIZ extents) so that a debatable header counts as "declares something huge" and never
// as an alarm.
package preparse

import "encoding/binary"

const Huge = uint64(1) << 62

func sat(a, b uint64) uint64 {
	if a == 0 || b == 0 {
		return 0
	}
	if a > Huge/b {
		return Huge
	}
	return a * b
}

// Declared returns (S, found). found=false: no frame header - the stream declares nothing.
func Declared(d []byte) (uint64, bool) {
	if len(d) >= 2 && d[0] == 0xFF && d[1] == 0x4F {
		return declaredJ2K(d)
	}
	if len(d) >= 2 && d[0] == 0xFF && d[1] == 0xD8 {
		return declaredJPEG(d)
	}
	// neither family: scan for either header kind anywhere (generous)
	if s, ok := declaredJPEG(d); ok {
		return s, true
	}
	return declaredJ2K(d)
}

// declaredJPEG takes the maximum over every FF Cx / FF F7 occurrence that could be read as a
// frame header (a decoder that resynchronises could pick any of them).
func declaredJPEG(d []byte) (uint64, bool) {
	best, found := uint64(0), false
	for i := 0; i+9 < len(d); i++ {
		if d[i] != 0xFF {
			continue
		}
		m := d[i+1]
		sof := (m >= 0xC0 && m <= 0xCF && m != 0xC4 && m != 0xC8 && m != 0xCC) || m == 0xF7
		if !sof {
			continue
		}
		h := uint64(binary.BigEndian.Uint16(d[i+5:]))
		w := uint64(binary.BigEndian.Uint16(d[i+7:]))
		n := uint64(d[i+9])
		// sampling factors can enlarge a component's padded grid by up to 4x4 per component
		s := sat(sat(w, h), n)
		if !found || s > best {
			best = s
		}
		found = true
	}
	return best, found
}

func declaredJ2K(d []byte) (uint64, bool) {
	best, found := uint64(0), false
	for i := 0; i+40 < len(d); i++ {
		if d[i] != 0xFF || d[i+1] != 0x51 {
			continue
		}
		p := d[i+4:]
		xs, ys := uint64(binary.BigEndian.Uint32(p[2:])), uint64(binary.BigEndian.Uint32(p[6:]))
		xo, yo := uint64(binary.BigEndian.Uint32(p[10:])), uint64(binary.BigEndian.Uint32(p[14:]))
		xt, yt := uint64(binary.BigEndian.Uint32(p[18:])), uint64(binary.BigEndian.Uint32(p[22:]))
		xto, yto := uint64(binary.BigEndian.Uint32(p[26:])), uint64(binary.BigEndian.Uint32(p[30:]))
		c := uint64(binary.BigEndian.Uint16(p[34:]))
		s := uint64(0)
		// reading 1: the full reference grid; reading 2: extent minus offset, or "huge" if it wraps
		full := sat(sat(xs, ys), c)
		if xo > xs || yo > ys || xto > xo || yto > yo {
			full = Huge
		}
		s = full
		// tile grid: zero tile size or an absurd number of tiles is "huge"
		if xt == 0 || yt == 0 {
			s = Huge
		} else {
			tiles := sat((xs+xt-1)/xt, (ys+yt-1)/yt)
			if tiles > 1<<16 {
				s = Huge
			}
			// A tile larger than the image is legal and is clipped to the image area (T.800 B.3):
			// it does not enlarge what the header declares.
		}
		// sub-sampling factors of 0 are "huge" as well
		for k := 0; k < int(c) && 36+3*k+2 < len(p); k++ {
			if p[36+3*k+1] == 0 || p[36+3*k+2] == 0 {
				s = Huge
			}
		}
		if !found || s > best {
			best = s
		}
		found = true
	}
	return best, found
}


// J2KPrecincts estimates how many precincts the first SIZ + first COD of a JPEG 2000
// codestream declare (all tiles, components and resolutions; default precinct size 2^15).
// It returns 0 when either marker segment is missing or unreadable. The library's decoder
// spends several microseconds and a small map per declared precinct, which is the subject of
// known finding KF-C09-1; the estimate names that class of inputs.
func J2KPrecincts(d []byte) uint64 {
	siz := -1
	for i := 0; i+40 < len(d); i++ {
		if d[i] == 0xFF && d[i+1] == 0x51 {
			siz = i
			break
		}
	}
	if siz < 0 {
		return 0
	}
	p := d[siz+4:]
	xs, ys := uint64(binary.BigEndian.Uint32(p[2:])), uint64(binary.BigEndian.Uint32(p[6:]))
	xt, yt := uint64(binary.BigEndian.Uint32(p[18:])), uint64(binary.BigEndian.Uint32(p[22:]))
	nc := uint64(binary.BigEndian.Uint16(p[34:]))
	if xt == 0 || yt == 0 || xs == 0 || ys == 0 {
		return 0
	}
	tw, th := min(xt, xs), min(yt, ys)
	tiles := sat((xs+xt-1)/xt, (ys+yt-1)/yt)
	for i := siz; i+12 < len(d); i++ {
		if d[i] != 0xFF || d[i+1] != 0x52 {
			continue
		}
		l := int(binary.BigEndian.Uint16(d[i+2:]))
		if l < 12 || i+2+l > len(d) {
			return 0
		}
		scod, levels := d[i+4], int(d[i+9])
		if levels > 32 {
			return 0
		}
		total := uint64(0)
		for r := 0; r <= levels; r++ {
			ppx, ppy := uint(15), uint(15)
			if scod&1 != 0 && 14+r < 2+l {
				b := d[i+14+r]
				ppx, ppy = uint(b&15), uint(b>>4)
			}
			sh := uint(levels - r)
			rw, rh := (tw+(1<<sh)-1)>>sh, (th+(1<<sh)-1)>>sh
			total = total + sat(((rw+(1<<ppx)-1)>>ppx), ((rh+(1<<ppy)-1)>>ppy))
		}
		return sat(sat(total, tiles), nc)
	}
	return 0
}
