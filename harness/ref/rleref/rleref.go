// Package rleref is an independent reader for DICOM PS3.5 Annex G RLE frames, written from
// the standard's text (G.3 PackBits, G.4 header, G.2 byte-plane order). It shares no code
// with /repo/rle.
package rleref

import (
	"encoding/binary"
	"fmt"
)

// Header is the parsed 64-byte RLE header.
type Header struct {
	Count   int
	Offsets [15]uint32
}

// ParseHeader reads the 16 little-endian uint32 of the header.
func ParseHeader(b []byte) (*Header, error) {
	if len(b) < 64 {
		return nil, fmt.Errorf("frame shorter than the 64-byte header: %d", len(b))
	}
	h := &Header{Count: int(binary.LittleEndian.Uint32(b[0:4]))}
	for i := 0; i < 15; i++ {
		h.Offsets[i] = binary.LittleEndian.Uint32(b[4+4*i:])
	}
	return h, nil
}

// CheckHeader verifies the facts the property states: segment count equals planes, offsets
// ascending and in range (>= 64, < len), even total length.
func CheckHeader(b []byte, planes int) error {
	if len(b)%2 != 0 {
		return fmt.Errorf("encoded length %d is odd", len(b))
	}
	h, err := ParseHeader(b)
	if err != nil {
		return err
	}
	if h.Count != planes {
		return fmt.Errorf("header declares %d segments, frame has %d byte planes", h.Count, planes)
	}
	prev := uint32(0)
	for i := 0; i < h.Count; i++ {
		o := h.Offsets[i]
		if o < 64 || int64(o) >= int64(len(b)) {
			return fmt.Errorf("offset[%d]=%d out of range [64,%d)", i, o, len(b))
		}
		if i > 0 && o <= prev {
			return fmt.Errorf("offset[%d]=%d not above offset[%d]=%d", i, o, i-1, prev)
		}
		prev = o
	}
	// PS3.5 G.5: "the unused offsets shall be zero" (the header always holds 15 offset words)
	for i := h.Count; i < 15 && 4+4*i+4 <= len(b); i++ {
		if v := uint32(b[4+4*i]) | uint32(b[5+4*i])<<8 | uint32(b[6+4*i])<<16 | uint32(b[7+4*i])<<24; v != 0 {
			return fmt.Errorf("unused header offset word %d = %d, frame has %d segments (PS3.5 G.5: unused offsets are zero)", i+1, v, h.Count)
		}
	}
	return nil
}

// UnpackSegment expands one PackBits segment to exactly n bytes (G.3.2): control n in
// 0..127 copies n+1 literal bytes, -1..-127 replicates the next byte 1-n times, -128 is a
// no-op; decoding stops when n bytes are produced or the segment ends.
func UnpackSegment(seg []byte, n int) ([]byte, error) {
	out := make([]byte, 0, n)
	i := 0
	for len(out) < n && i < len(seg) {
		c := int8(seg[i])
		i++
		switch {
		case c >= 0:
			l := int(c) + 1
			if i+l > len(seg) {
				return nil, fmt.Errorf("literal of %d bytes runs past the segment end", l)
			}
			out = append(out, seg[i:i+l]...)
			i += l
		case c != -128:
			l := 1 - int(c)
			if i >= len(seg) {
				return nil, fmt.Errorf("replicate run without value byte")
			}
			v := seg[i]
			i++
			for k := 0; k < l; k++ {
				out = append(out, v)
			}
		}
	}
	if len(out) < n {
		return nil, fmt.Errorf("segment expands to %d bytes, need %d", len(out), n)
	}
	if len(out) > n {
		return nil, fmt.Errorf("segment expands to %d bytes, more than the %d pixels of the plane", len(out), n)
	}
	// anything left in the segment may only be padding (at most one zero byte to reach an even offset)
	if rest := len(seg) - i; rest > 1 {
		return nil, fmt.Errorf("%d undecoded bytes after the plane was complete", rest)
	}
	return out, nil
}

// Decode reconstructs the native frame (without trailing pad) from an RLE frame.
// bytesAlloc = BitsAllocated/8, spp = SamplesPerPixel, planar = PlanarConfiguration.
func Decode(b []byte, pixels, bytesAlloc, spp, planar int) ([]byte, error) {
	h, err := ParseHeader(b)
	if err != nil {
		return nil, err
	}
	planes := bytesAlloc * spp
	if h.Count != planes {
		return nil, fmt.Errorf("segment count %d != %d", h.Count, planes)
	}
	frame := make([]byte, pixels*planes)
	for s := 0; s < planes; s++ {
		start := int(h.Offsets[s])
		end := len(b)
		if s+1 < planes {
			end = int(h.Offsets[s+1])
		}
		if start < 64 || end > len(b) || start > end {
			return nil, fmt.Errorf("segment %d bounds [%d,%d) invalid", s, start, end)
		}
		plane, err := UnpackSegment(b[start:end], pixels)
		if err != nil {
			return nil, fmt.Errorf("segment %d: %v", s, err)
		}
		sample := s / bytesAlloc
		msbFirst := s % bytesAlloc        // 0 = most significant byte
		byteIdx := bytesAlloc - 1 - msbFirst // little-endian position inside the sample
		for p := 0; p < pixels; p++ {
			var pos int
			if planar == 0 {
				pos = (p*spp+sample)*bytesAlloc + byteIdx
			} else {
				pos = (sample*pixels+p)*bytesAlloc + byteIdx
			}
			frame[pos] = plane[p]
		}
	}
	return frame, nil
}

// Planes splits a native frame into its byte planes in Annex G segment order.
func Planes(frame []byte, pixels, bytesAlloc, spp, planar int) [][]byte {
	planes := bytesAlloc * spp
	out := make([][]byte, planes)
	for s := 0; s < planes; s++ {
		sample := s / bytesAlloc
		byteIdx := bytesAlloc - 1 - s%bytesAlloc
		pl := make([]byte, pixels)
		for p := 0; p < pixels; p++ {
			if planar == 0 {
				pl[p] = frame[(p*spp+sample)*bytesAlloc+byteIdx]
			} else {
				pl[p] = frame[(sample*pixels+p)*bytesAlloc+byteIdx]
			}
		}
		out[s] = pl
	}
	return out
}

// Assemble is the inverse of Planes.
func Assemble(planesData [][]byte, pixels, bytesAlloc, spp, planar int) []byte {
	planes := bytesAlloc * spp
	frame := make([]byte, pixels*planes)
	for s := 0; s < planes; s++ {
		sample := s / bytesAlloc
		byteIdx := bytesAlloc - 1 - s%bytesAlloc
		for p := 0; p < pixels; p++ {
			if planar == 0 {
				frame[(p*spp+sample)*bytesAlloc+byteIdx] = planesData[s][p]
			} else {
				frame[(sample*pixels+p)*bytesAlloc+byteIdx] = planesData[s][p]
			}
		}
	}
	return frame
}
