// Package t81 is an independent implementation of the lossless mode of ITU-T T.81
// (JPEG, Annex H with Huffman coding, Annex C table generation, Annex F.1.2.1 DIFF
// categories extended to SSSS=16 per H.1.2.2). It shares no code with /repo.
//
// Scope: single interleaved scan, H=V=1, point transform 0, no restart intervals -
// exactly the domain quantified over by properties C02/C13.
package t81

import (
	"errors"
	"fmt"
	"sort"
)

// Image holds samples pixel-interleaved: Samples[(y*W+x)*C+c], each in [0, 2^P).
type Image struct {
	W, H, C, P int
	Pred       int // predictor selection value 1..7 (Ss of the scan)
	Samples    []int
}

// ---------------------------------------------------------------------------------------
// Huffman tables (Annex C)

// Table is a Huffman table given by its BITS (1..16) and HUFFVAL lists.
type Table struct {
	Bits [17]int // Bits[l] = number of codes of length l
	Vals []byte

	mincode, maxcode, valptr [18]int
	ecode, esize             [256]int
}

// Build generates codes (C.2) and the decoding tables (F.2.2.3). It rejects tables that are
// over-subscribed or that use the all-ones code word, which T.81 reserves.
func (t *Table) Build() error {
	var sizes []int
	for l := 1; l <= 16; l++ {
		for i := 0; i < t.Bits[l]; i++ {
			sizes = append(sizes, l)
		}
	}
	if len(sizes) != len(t.Vals) {
		return errors.New("t81: BITS/HUFFVAL mismatch")
	}
	if len(sizes) == 0 {
		return errors.New("t81: empty table")
	}
	codes := make([]int, len(sizes))
	code, k := 0, 0
	for l := 1; l <= 16; l++ {
		for k < len(sizes) && sizes[k] == l {
			if code >= 1<<uint(l) {
				return errors.New("t81: over-subscribed table")
			}
			codes[k] = code
			code++
			k++
		}
		code <<= 1
	}
	last := len(sizes) - 1
	if codes[last] == 1<<uint(sizes[last])-1 {
		return errors.New("t81: table uses the reserved all-ones code")
	}
	j := 0
	for l := 1; l <= 16; l++ {
		if t.Bits[l] == 0 {
			t.maxcode[l] = -1
			continue
		}
		t.valptr[l] = j
		t.mincode[l] = codes[j]
		j += t.Bits[l]
		t.maxcode[l] = codes[j-1]
	}
	for i := range t.esize {
		t.esize[i] = 0
	}
	seen := map[byte]bool{}
	for i, v := range t.Vals {
		if seen[v] {
			return errors.New("t81: duplicate symbol in HUFFVAL")
		}
		seen[v] = true
		t.ecode[v] = codes[i]
		t.esize[v] = sizes[i]
	}
	return nil
}

// Has reports whether the table has a code for symbol v.
func (t *Table) Has(v int) bool { return v >= 0 && v < 256 && t.esize[v] > 0 }

// MaxLen returns the longest code length in the table.
func (t *Table) MaxLen() int {
	m := 0
	for l := 1; l <= 16; l++ {
		if t.Bits[l] > 0 {
			m = l
		}
	}
	return m
}

// FromLengths builds a table from a code length per symbol (0 = symbol absent). Symbols of
// equal length are listed in ascending order, or descending when desc is set.
func FromLengths(lens []int, desc bool) (*Table, error) {
	type sl struct{ sym, l int }
	var s []sl
	for sym, l := range lens {
		if l < 0 || l > 16 {
			return nil, fmt.Errorf("t81: code length %d", l)
		}
		if l > 0 {
			s = append(s, sl{sym, l})
		}
	}
	sort.SliceStable(s, func(i, j int) bool {
		if s[i].l != s[j].l {
			return s[i].l < s[j].l
		}
		if desc {
			return s[i].sym > s[j].sym
		}
		return s[i].sym < s[j].sym
	})
	t := &Table{}
	for _, e := range s {
		t.Bits[e.l]++
		t.Vals = append(t.Vals, byte(e.sym))
	}
	if err := t.Build(); err != nil {
		return nil, err
	}
	return t, nil
}

// StdLengths is the Annex K.3.1 luminance DC table (categories 0..11) continued with the
// same pattern up to category 16.
var StdLengths = []int{2, 3, 3, 3, 3, 3, 4, 5, 6, 7, 8, 9, 10, 11, 12, 13, 14}

// OptimalLengths derives length-limited Huffman code lengths for the given frequencies by
// the procedure of Annex K.2 (Figures K.1-K.3), including the reserved all-ones code point.
func OptimalLengths(freq []int) []int {
	n := len(freq)
	f := make([]int, n+1)
	copy(f, freq)
	f[n] = 1 // reserved code point
	codesize := make([]int, n+1)
	others := make([]int, n+1)
	for i := range others {
		others[i] = -1
	}
	for {
		v1, v2 := -1, -1
		for i := 0; i <= n; i++ { // least frequency, largest index on ties (K.1)
			if f[i] > 0 && (v1 < 0 || f[i] <= f[v1]) {
				v1 = i
			}
		}
		for i := 0; i <= n; i++ {
			if i != v1 && f[i] > 0 && (v2 < 0 || f[i] <= f[v2]) {
				v2 = i
			}
		}
		if v2 < 0 {
			break
		}
		f[v1] += f[v2]
		f[v2] = 0
		for codesize[v1]++; others[v1] >= 0; codesize[v1]++ {
			v1 = others[v1]
		}
		others[v1] = v2
		for codesize[v2]++; others[v2] >= 0; codesize[v2]++ {
			v2 = others[v2]
		}
	}
	var bits [40]int
	for i := 0; i <= n; i++ {
		if codesize[i] > 0 {
			bits[codesize[i]]++
		}
	}
	// K.3 Adjust_BITS
	for i := 39; i > 16; {
		if bits[i] > 0 {
			j := i - 2
			for bits[j] == 0 {
				j--
			}
			bits[i] -= 2
			bits[i-1]++
			bits[j+1] += 2
			bits[j]--
		} else {
			i--
		}
	}
	i := 16
	for bits[i] == 0 {
		i--
	}
	bits[i]-- // remove the reserved code point
	// assign lengths: symbols sorted by increasing code size get the shortest codes (K.4)
	type sc struct{ sym, cs int }
	var order []sc
	for s := 0; s < n; s++ {
		if codesize[s] > 0 {
			order = append(order, sc{s, codesize[s]})
		}
	}
	sort.SliceStable(order, func(a, b int) bool { return order[a].cs < order[b].cs })
	lens := make([]int, n)
	l := 1
	for _, e := range order {
		for l <= 16 && bits[l] == 0 {
			l++
		}
		lens[e.sym] = l
		bits[l]--
	}
	return lens
}

// ---------------------------------------------------------------------------------------
// prediction (H.1.2.1, Table H.1) and difference categories (H.1.2.2)

func predict(sel, ra, rb, rc int) int {
	switch sel {
	case 1:
		return ra
	case 2:
		return rb
	case 3:
		return rc
	case 4:
		return ra + rb - rc
	case 5:
		return ra + ((rb - rc) >> 1)
	case 6:
		return rb + ((ra - rc) >> 1)
	case 7:
		return (ra + rb) >> 1
	}
	return 0
}

// px applies the edge rules: 2^(P-1) for the first sample, Ra along the first line, Rb at
// the start of every other line, the selected predictor elsewhere (Pt = 0).
func px(img *Image, x, y, c int) int {
	at := func(x, y int) int { return img.Samples[(y*img.W+x)*img.C+c] }
	switch {
	case x == 0 && y == 0:
		return 1 << uint(img.P-1)
	case y == 0:
		return at(x-1, 0)
	case x == 0:
		return at(0, y-1)
	}
	return predict(img.Pred, at(x-1, y), at(x, y-1), at(x-1, y-1))
}

// Category returns SSSS and the additional bits of a difference in [-32767, 32768].
func Category(diff int) (ssss int, bits int) {
	if diff == 32768 {
		return 16, 0
	}
	a := diff
	if a < 0 {
		a = -a
	}
	for a > 0 {
		ssss++
		a >>= 1
	}
	if diff < 0 {
		bits = diff + (1 << uint(ssss)) - 1
	} else {
		bits = diff
	}
	return
}

// Diff returns the modulo-2^16 prediction difference in the range [-32767, 32768].
func Diff(sample, pred int) int {
	d := (sample - pred) & 0xFFFF
	if d > 32768 {
		d -= 65536
	}
	return d
}

// ---------------------------------------------------------------------------------------
// encoder

type bitw struct {
	out []byte
	acc uint32
	n   int
}

func (b *bitw) put(code, size int) {
	for i := size - 1; i >= 0; i-- {
		b.acc = b.acc<<1 | uint32(code>>uint(i)&1)
		b.n++
		if b.n == 8 {
			b.out = append(b.out, byte(b.acc))
			if byte(b.acc) == 0xFF {
				b.out = append(b.out, 0)
			}
			b.acc, b.n = 0, 0
		}
	}
}

func (b *bitw) flush() {
	for b.n != 0 {
		b.put(1, 1)
	}
}

// Segment is an extra marker segment (APPn / COM) placed before SOF3.
type Segment struct {
	Marker  byte
	Payload []byte
}

// EncodeOpts selects the stream layout.
type EncodeOpts struct {
	Td          []int      // table destination per component (0..3)
	Tables      [4]*Table  // tables by destination; every used one must be set
	Extra       []Segment  // APPn/COM segments written before SOF3
	DHTAfterSOF bool       // write DHT after SOF3 instead of before
	OneDHT      bool       // put all tables into one DHT segment
	CompIDs     []byte     // component identifiers (default 1..C)
}

func seg(out []byte, marker byte, payload []byte) []byte {
	l := len(payload) + 2
	out = append(out, 0xFF, marker, byte(l>>8), byte(l))
	return append(out, payload...)
}

// CategoryHistogram counts SSSS per table destination for an image (to build tables).
func CategoryHistogram(img *Image, td []int) [4][]int {
	var h [4][]int
	for i := range h {
		h[i] = make([]int, 17)
	}
	for y := 0; y < img.H; y++ {
		for x := 0; x < img.W; x++ {
			for c := 0; c < img.C; c++ {
				s, _ := Category(Diff(img.Samples[(y*img.W+x)*img.C+c], px(img, x, y, c)))
				h[td[c]][s]++
			}
		}
	}
	return h
}

// Encode writes a conformant single-scan lossless stream.
func Encode(img *Image, o EncodeOpts) ([]byte, error) {
	if img.Pred < 1 || img.Pred > 7 || img.P < 2 || img.P > 16 || img.W < 1 || img.H < 1 || img.W > 65535 || img.H > 65535 {
		return nil, errors.New("t81: parameters outside the lossless process")
	}
	ids := o.CompIDs
	if ids == nil {
		for c := 0; c < img.C; c++ {
			ids = append(ids, byte(c+1))
		}
	}
	out := []byte{0xFF, 0xD8}
	for _, s := range o.Extra {
		out = seg(out, s.Marker, s.Payload)
	}
	sof := []byte{byte(img.P), byte(img.H >> 8), byte(img.H), byte(img.W >> 8), byte(img.W), byte(img.C)}
	for c := 0; c < img.C; c++ {
		sof = append(sof, ids[c], 0x11, 0)
	}
	used := map[int]bool{}
	var order []int
	for _, d := range o.Td {
		if !used[d] {
			used[d] = true
			order = append(order, d)
		}
	}
	dht := func(out []byte) []byte {
		var all []byte
		for _, d := range order {
			t := o.Tables[d]
			p := []byte{byte(d)} // Tc = 0, Th = d
			for l := 1; l <= 16; l++ {
				p = append(p, byte(t.Bits[l]))
			}
			p = append(p, t.Vals...)
			if o.OneDHT {
				all = append(all, p...)
			} else {
				out = seg(out, 0xC4, p)
			}
		}
		if o.OneDHT {
			out = seg(out, 0xC4, all)
		}
		return out
	}
	for _, d := range order {
		if d < 0 || d > 3 || o.Tables[d] == nil {
			return nil, fmt.Errorf("t81: table %d not provided", d)
		}
	}
	if !o.DHTAfterSOF {
		out = dht(out)
	}
	out = seg(out, 0xC3, sof)
	if o.DHTAfterSOF {
		out = dht(out)
	}
	sos := []byte{byte(img.C)}
	for c := 0; c < img.C; c++ {
		sos = append(sos, ids[c], byte(o.Td[c]<<4))
	}
	sos = append(sos, byte(img.Pred), 0, 0)
	out = seg(out, 0xDA, sos)
	bw := &bitw{}
	for y := 0; y < img.H; y++ {
		for x := 0; x < img.W; x++ {
			for c := 0; c < img.C; c++ {
				t := o.Tables[o.Td[c]]
				d := Diff(img.Samples[(y*img.W+x)*img.C+c], px(img, x, y, c))
				s, bits := Category(d)
				if !t.Has(s) {
					return nil, fmt.Errorf("t81: table %d has no code for category %d", o.Td[c], s)
				}
				bw.put(t.ecode[s], t.esize[s])
				if s > 0 && s < 16 {
					bw.put(bits, s)
				}
			}
		}
	}
	bw.flush()
	out = append(out, bw.out...)
	return append(out, 0xFF, 0xD9), nil
}

// ---------------------------------------------------------------------------------------
// decoder

type bitr struct {
	d   []byte
	pos int
	cur int
	n   int
}

func (b *bitr) bit() (int, error) {
	if b.n == 0 {
		if b.pos >= len(b.d) {
			return 0, errors.New("t81: out of entropy-coded data")
		}
		v := b.d[b.pos]
		b.pos++
		if v == 0xFF {
			if b.pos >= len(b.d) || b.d[b.pos] != 0 {
				return 0, errors.New("t81: marker inside entropy-coded data")
			}
			b.pos++
		}
		b.cur, b.n = int(v), 8
	}
	b.n--
	return (b.cur >> uint(b.n)) & 1, nil
}

// Info describes what the stream declared.
type Info struct {
	Td      []int
	SawEOI  bool
	Trailer int // bytes after EOI
}

// Decode decodes a single-scan lossless stream (SOF3).
func Decode(d []byte) (*Image, *Info, error) {
	if len(d) < 4 || d[0] != 0xFF || d[1] != 0xD8 {
		return nil, nil, errors.New("t81: no SOI")
	}
	img := &Image{}
	info := &Info{}
	var tabs [4]*Table
	var compIDs []byte
	pos := 2
	for {
		if pos+4 > len(d) || d[pos] != 0xFF {
			return nil, nil, errors.New("t81: marker expected")
		}
		m := d[pos+1]
		l := int(d[pos+2])<<8 | int(d[pos+3])
		if l < 2 || pos+2+l > len(d) {
			return nil, nil, errors.New("t81: bad segment length")
		}
		sg := d[pos+4 : pos+2+l]
		pos += 2 + l
		switch m {
		case 0xC3:
			if len(sg) < 6 {
				return nil, nil, errors.New("t81: short SOF3")
			}
			img.P = int(sg[0])
			img.H = int(sg[1])<<8 | int(sg[2])
			img.W = int(sg[3])<<8 | int(sg[4])
			img.C = int(sg[5])
			if len(sg) != 6+3*img.C {
				return nil, nil, errors.New("t81: SOF3 length does not match Nf")
			}
			if img.P < 2 || img.P > 16 || img.W == 0 || img.H == 0 {
				return nil, nil, errors.New("t81: SOF3 parameters out of range")
			}
			for i := 0; i < img.C; i++ {
				compIDs = append(compIDs, sg[6+3*i])
				if sg[7+3*i] != 0x11 {
					return nil, nil, errors.New("t81: subsampling unsupported")
				}
			}
		case 0xC4:
			for len(sg) > 0 {
				if len(sg) < 17 {
					return nil, nil, errors.New("t81: short DHT")
				}
				tc, th := sg[0]>>4, sg[0]&15
				t := &Table{}
				n := 0
				for i := 1; i <= 16; i++ {
					t.Bits[i] = int(sg[i])
					n += t.Bits[i]
				}
				if len(sg) < 17+n {
					return nil, nil, errors.New("t81: short DHT values")
				}
				t.Vals = append([]byte(nil), sg[17:17+n]...)
				sg = sg[17+n:]
				if err := t.Build(); err != nil {
					return nil, nil, err
				}
				if tc != 0 || th > 3 {
					return nil, nil, fmt.Errorf("t81: DHT Tc=%d Th=%d not valid in a lossless stream", tc, th)
				}
				tabs[th] = t
			}
		case 0xDA:
			if img.W == 0 {
				return nil, nil, errors.New("t81: SOS before SOF3")
			}
			ns := int(sg[0])
			if ns != img.C || len(sg) != 4+2*ns {
				return nil, nil, errors.New("t81: Ns != Nf or bad SOS length")
			}
			sel := make([]int, ns)
			for i := 0; i < ns; i++ {
				if sg[1+2*i] != compIDs[i] {
					return nil, nil, errors.New("t81: scan component order")
				}
				sel[i] = int(sg[2+2*i] >> 4)
				if sel[i] > 3 {
					return nil, nil, errors.New("t81: Td > 3")
				}
			}
			info.Td = sel
			img.Pred = int(sg[1+2*ns])
			if img.Pred < 1 || img.Pred > 7 || sg[3+2*ns] != 0 {
				return nil, nil, fmt.Errorf("t81: Ss=%d Ah/Al=%#x unsupported", img.Pred, sg[3+2*ns])
			}
			end := -1
			for i := pos; i+1 < len(d); i++ {
				if d[i] == 0xFF && d[i+1] != 0 {
					end = i
					break
				}
			}
			if end < 0 {
				return nil, nil, errors.New("t81: no marker after the entropy-coded segment")
			}
			br := &bitr{d: d[pos:end]}
			img.Samples = make([]int, img.W*img.H*img.C)
			for y := 0; y < img.H; y++ {
				for x := 0; x < img.W; x++ {
					for c := 0; c < img.C; c++ {
						t := tabs[sel[c]]
						if t == nil {
							return nil, nil, fmt.Errorf("t81: table %d not defined", sel[c])
						}
						code, ssss := 0, -1
						for l := 1; l <= 16; l++ {
							b, err := br.bit()
							if err != nil {
								return nil, nil, err
							}
							code = code<<1 | b
							if t.maxcode[l] >= 0 && code <= t.maxcode[l] && code >= t.mincode[l] {
								ssss = int(t.Vals[t.valptr[l]+code-t.mincode[l]])
								break
							}
						}
						if ssss < 0 || ssss > 16 {
							return nil, nil, errors.New("t81: invalid Huffman code")
						}
						diff := 0
						if ssss == 16 {
							diff = 32768
						} else if ssss > 0 {
							v := 0
							for i := 0; i < ssss; i++ {
								b, err := br.bit()
								if err != nil {
									return nil, nil, err
								}
								v = v<<1 | b
							}
							if v < 1<<uint(ssss-1) {
								v += (-1 << uint(ssss)) + 1
							}
							diff = v
						}
						img.Samples[(y*img.W+x)*img.C+c] = (px(img, x, y, c) + diff) & 0xFFFF
					}
				}
			}
			if d[end+1] == 0xD9 {
				info.SawEOI = true
				info.Trailer = len(d) - (end + 2)
			}
			return img, info, nil
		}
	}
}

// Code returns the code word and its length for symbol v.
func (t *Table) Code(v int) (code, size int, ok bool) {
	if !t.Has(v) {
		return 0, 0, false
	}
	return t.ecode[v], t.esize[v], true
}
