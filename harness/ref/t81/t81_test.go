package t81

import (
	"testing"

	"pgregory.net/rapid"
)

// The reference encoder and decoder must be inverse to each other for every table kind.
func TestSelfRoundTrip(t *testing.T) {
	rapid.Check(t, func(t *rapid.T) {
		img := &Image{W: rapid.IntRange(1, 9).Draw(t, "w"), H: rapid.IntRange(1, 9).Draw(t, "h"),
			C: rapid.SampledFrom([]int{1, 3}).Draw(t, "c"), P: rapid.IntRange(2, 16).Draw(t, "p"), Pred: rapid.IntRange(1, 7).Draw(t, "pred")}
		max := 1<<uint(img.P) - 1
		img.Samples = rapid.SliceOfN(rapid.OneOf(rapid.IntRange(0, max), rapid.SampledFrom([]int{0, max})), img.W*img.H*img.C, img.W*img.H*img.C).Draw(t, "s")
		td := make([]int, img.C)
		for i := range td {
			td[i] = rapid.IntRange(0, 3).Draw(t, "td")
		}
		o := EncodeOpts{Td: td, DHTAfterSOF: rapid.Bool().Draw(t, "after"), OneDHT: rapid.Bool().Draw(t, "one")}
		h := CategoryHistogram(img, td)
		for _, d := range td {
			var err error
			if rapid.Bool().Draw(t, "opt") {
				o.Tables[d], err = FromLengths(OptimalLengths(h[d]), false)
			} else {
				o.Tables[d], err = FromLengths(StdLengths, rapid.Bool().Draw(t, "desc"))
			}
			if err != nil {
				t.Fatal(err)
			}
		}
		b, err := Encode(img, o)
		if err != nil {
			t.Fatal(err)
		}
		got, info, err := Decode(b)
		if err != nil {
			t.Fatal(err)
		}
		if !info.SawEOI || info.Trailer != 0 || got.W != img.W || got.H != img.H || got.C != img.C || got.P != img.P || got.Pred != img.Pred {
			t.Fatalf("header mismatch %+v", got)
		}
		for i := range img.Samples {
			if got.Samples[i] != img.Samples[i] {
				t.Fatalf("sample %d: %d != %d", i, got.Samples[i], img.Samples[i])
			}
		}
	})
}

func TestOptimalLengthsLimited(t *testing.T) {
	// Fibonacci-like frequencies force depth > 16 before adjustment.
	f := make([]int, 17)
	a, b := 1, 1
	for i := range f {
		f[i] = a
		a, b = b, a+b
	}
	l := OptimalLengths(f)
	for s, v := range l {
		if v < 1 || v > 16 {
			t.Fatalf("symbol %d length %d", s, v)
		}
	}
	if _, err := FromLengths(l, false); err != nil {
		t.Fatal(err)
	}
}
