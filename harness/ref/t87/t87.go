// Package t87 is an independent JPEG-LS (ITU-T T.87) decoder written from the standard's
// code segments (Annex A decoding procedures, Annex C.2.4.1.1 default parameters); it
// shares no code with /repo. Scope: no LSE, ILV=0 with one component or ILV=2 (sample
// interleaved) with several - the domain of properties C03/C07/C14.
//
// One reading of the standard is fixed here and stated as an assumption of the checks: in
// sample-interleaved scans the run-interruption sample of every component is coded with
// RItype = 0 (prediction Rb, context 365), as the HP reference implementation and CharLS do.
package t87

import (
	"errors"
	"fmt"
)

var jTab = [32]int{0, 0, 0, 0, 1, 1, 1, 1, 2, 2, 2, 2, 3, 3, 3, 3, 4, 4, 5, 5, 6, 6, 7, 7, 8, 9, 10, 11, 12, 13, 14, 15}

type bitReader struct {
	d      []byte
	pos    int
	cur    uint32
	nbits  int
	prevFF bool
}

func (b *bitReader) bit() (int, error) {
	if b.nbits == 0 {
		if b.pos >= len(b.d) {
			return 0, errors.New("t87: out of data")
		}
		v := b.d[b.pos]
		b.pos++
		if b.prevFF {
			// stuffed zero bit in the MSB: only 7 data bits
			b.cur = uint32(v & 0x7F)
			b.nbits = 7
		} else {
			b.cur = uint32(v)
			b.nbits = 8
		}
		b.prevFF = v == 0xFF
	}
	b.nbits--
	return int(b.cur>>uint(b.nbits)) & 1, nil
}

func (b *bitReader) bits(n int) (int, error) {
	v := 0
	for i := 0; i < n; i++ {
		x, err := b.bit()
		if err != nil {
			return 0, err
		}
		v = v<<1 | x
	}
	return v, nil
}

type Image struct {
	W, H, C, P, Near, ILV int
	Samples               []int // interleaved by pixel: (y*W+x)*C+c
	Stats                 Stats
}

// Stats counts which coding mechanisms the decoded stream exercised (labels for evidence).
type Stats struct {
	Regular, Escapes, Resets, Runs, RunsToEOL, Interrupt0, Interrupt1, MaxRunIndex, StuffedFF int
	EndsEOI                                                                                   bool
	Trailer                                                                                   int
}

func ceilLog2(n int) int {
	k := 0
	for (1 << uint(k)) < n {
		k++
	}
	return k
}

type params struct {
	maxval, near, rng, qbpp, bpp, limit, t1, t2, t3, reset int
}

func clampStd(i, j, maxval int) int {
	if i > maxval || i < j {
		return j
	}
	return i
}

func defaults(maxval, near int) params {
	p := params{maxval: maxval, near: near, reset: 64}
	p.rng = (maxval+2*near)/(2*near+1) + 1
	p.qbpp = ceilLog2(p.rng)
	p.bpp = ceilLog2(maxval + 1)
	if p.bpp < 2 {
		p.bpp = 2
	}
	m := p.bpp
	if m < 8 {
		m = 8
	}
	p.limit = 2 * (p.bpp + m)
	if maxval >= 128 {
		f := maxval
		if f > 4095 {
			f = 4095
		}
		f = (f + 128) / 256
		p.t1 = clampStd(f*(3-2)+2+3*near, near+1, maxval)
		p.t2 = clampStd(f*(7-3)+3+5*near, p.t1, maxval)
		p.t3 = clampStd(f*(21-4)+4+7*near, p.t2, maxval)
	} else {
		f := 256 / (maxval + 1)
		a := 3/f + 3*near
		if a < 2 {
			a = 2
		}
		b := 7/f + 5*near
		if b < 3 {
			b = 3
		}
		c := 21/f + 7*near
		if c < 4 {
			c = 4
		}
		p.t1 = clampStd(a, near+1, maxval)
		p.t2 = clampStd(b, p.t1, maxval)
		p.t3 = clampStd(c, p.t2, maxval)
	}
	return p
}

type state struct {
	st       *Stats
	p        params
	A, B, C, N [367]int
	Nn       [2]int
	runIndex int
	br       *bitReader
}

func newState(p params, br *bitReader) *state {
	s := &state{p: p, br: br}
	a := (p.rng + 32) / 64
	if a < 2 {
		a = 2
	}
	for i := range s.A {
		s.A[i] = a
		s.N[i] = 1
	}
	return s
}

func (s *state) quant(d int) int {
	p := s.p
	switch {
	case d <= -p.t3:
		return -4
	case d <= -p.t2:
		return -3
	case d <= -p.t1:
		return -2
	case d < -p.near:
		return -1
	case d <= p.near:
		return 0
	case d < p.t1:
		return 1
	case d < p.t2:
		return 2
	case d < p.t3:
		return 3
	}
	return 4
}

func (s *state) golomb(k, limit int) (int, error) {
	q := 0
	for {
		b, err := s.br.bit()
		if err != nil {
			return 0, err
		}
		if b == 1 {
			break
		}
		q++
		if q > 64 {
			return 0, errors.New("t87: unary prefix too long")
		}
	}
	if q >= limit-s.p.qbpp-1 {
		s.st.Escapes++
	}
	if q < limit-s.p.qbpp-1 {
		r, err := s.br.bits(k)
		if err != nil {
			return 0, err
		}
		return q<<uint(k) + r, nil
	}
	r, err := s.br.bits(s.p.qbpp)
	if err != nil {
		return 0, err
	}
	return r + 1, nil
}

func (s *state) fix(rx int) int {
	p := s.p
	if rx < -p.near {
		rx += p.rng * (2*p.near + 1)
	} else if rx > p.maxval+p.near {
		rx -= p.rng * (2*p.near + 1)
	}
	if rx < 0 {
		rx = 0
	} else if rx > p.maxval {
		rx = p.maxval
	}
	return rx
}

func (s *state) regular(q1, q2, q3, ra, rb, rc int) (int, error) {
	sign := 1
	if q1 < 0 || (q1 == 0 && (q2 < 0 || (q2 == 0 && q3 < 0))) {
		sign = -1
		q1, q2, q3 = -q1, -q2, -q3
	}
	Q := 81*q1 + 9*q2 + q3 // 1..364
	var px int
	mx, mn := ra, rb
	if rb > ra {
		mx, mn = rb, ra
	}
	switch {
	case rc >= mx:
		px = mn
	case rc <= mn:
		px = mx
	default:
		px = ra + rb - rc
	}
	px += sign * s.C[Q]
	if px < 0 {
		px = 0
	} else if px > s.p.maxval {
		px = s.p.maxval
	}
	k := 0
	for (s.N[Q] << uint(k)) < s.A[Q] {
		k++
	}
	m, err := s.golomb(k, s.p.limit)
	if err != nil {
		return 0, err
	}
	var e int
	if s.p.near == 0 && k == 0 && 2*s.B[Q] <= -s.N[Q] {
		if m&1 == 1 {
			e = (m - 1) / 2
		} else {
			e = -(m / 2) - 1
		}
	} else {
		if m&1 == 0 {
			e = m / 2
		} else {
			e = -(m + 1) / 2
		}
	}
	// update
	s.B[Q] += e * (2*s.p.near + 1)
	if e < 0 {
		s.A[Q] -= e
	} else {
		s.A[Q] += e
	}
	s.st.Regular++
	if s.N[Q] == s.p.reset {
		s.st.Resets++
		s.A[Q] >>= 1
		if s.B[Q] >= 0 {
			s.B[Q] >>= 1
		} else {
			s.B[Q] = -((1 - s.B[Q]) >> 1)
		}
		s.N[Q] >>= 1
	}
	s.N[Q]++
	if s.B[Q] <= -s.N[Q] {
		s.B[Q] += s.N[Q]
		if s.C[Q] > -128 {
			s.C[Q]--
		}
		if s.B[Q] <= -s.N[Q] {
			s.B[Q] = -s.N[Q] + 1
		}
	} else if s.B[Q] > 0 {
		s.B[Q] -= s.N[Q]
		if s.C[Q] < 127 {
			s.C[Q]++
		}
		if s.B[Q] > 0 {
			s.B[Q] = 0
		}
	}
	return s.fix(px + sign*e*(2*s.p.near+1)), nil
}

// runInterruption decodes one run-interruption sample. forceType0 is used for
// sample-interleaved scans.
func (s *state) runInterruption(ra, rb int, forceType0 bool) (int, error) {
	ri := 0
	d := ra - rb
	if d < 0 {
		d = -d
	}
	if !forceType0 && d <= s.p.near {
		ri = 1
	}
	if ri == 1 {
		s.st.Interrupt1++
	} else {
		s.st.Interrupt0++
	}
	Q := 365 + ri
	px, sign := rb, 1
	if ri == 1 {
		px = ra
	} else if ra > rb {
		sign = -1
	}
	temp := s.A[Q]
	if ri == 1 {
		temp += s.N[Q] >> 1
	}
	k := 0
	for (s.N[Q] << uint(k)) < temp {
		k++
	}
	em, err := s.golomb(k, s.p.limit-jTab[s.runIndex]-1)
	if err != nil {
		return 0, err
	}
	te := em + ri
	mapb := te & 1
	abs := (te + mapb) / 2
	var e int
	if k == 0 && 2*s.Nn[ri] < s.N[Q] {
		if mapb == 1 {
			e = abs
		} else {
			e = -abs
		}
	} else {
		if mapb == 1 {
			e = -abs
		} else {
			e = abs
		}
	}
	if e < 0 {
		s.Nn[ri]++
	}
	s.A[Q] += (em + 1 - ri) >> 1
	if s.N[Q] == s.p.reset {
		s.A[Q] >>= 1
		s.N[Q] >>= 1
		s.Nn[ri] >>= 1
	}
	s.N[Q]++
	return s.fix(px + sign*e*(2*s.p.near+1)), nil
}

// Decode parses SOI, SOF55, SOS (no LSE support) and one scan.
func Decode(d []byte) (*Image, error) {
	if len(d) < 4 || d[0] != 0xFF || d[1] != 0xD8 {
		return nil, errors.New("t87: no SOI")
	}
	pos := 2
	img := &Image{}
	for {
		if pos+4 > len(d) || d[pos] != 0xFF {
			return nil, errors.New("t87: marker expected")
		}
		m := d[pos+1]
		l := int(d[pos+2])<<8 | int(d[pos+3])
		if pos+2+l > len(d) {
			return nil, errors.New("t87: segment overruns")
		}
		seg := d[pos+4 : pos+2+l]
		pos += 2 + l
		switch m {
		case 0xF7:
			if len(seg) < 6 || len(seg) != 6+3*int(seg[5]) {
				return nil, errors.New("t87: bad SOF55 length")
			}
			img.P = int(seg[0])
			img.H = int(seg[1])<<8 | int(seg[2])
			img.W = int(seg[3])<<8 | int(seg[4])
			img.C = int(seg[5])
		case 0xF8:
			return nil, errors.New("t87: LSE not supported")
		case 0xDA:
			ns := int(seg[0])
			if len(seg) != 4+2*ns || img.W == 0 || img.H == 0 || img.P < 2 || img.P > 16 {
				return nil, errors.New("t87: bad SOS length or frame header")
			}
			img.Near = int(seg[1+2*ns])
			img.ILV = int(seg[2+2*ns])
			if ns != img.C || (img.C == 1 && img.ILV != 0) || (img.C > 1 && img.ILV != 2) {
				return nil, fmt.Errorf("t87: unsupported scan layout ns=%d ilv=%d", ns, img.ILV)
			}
			return img, decodeScan(img, d[pos:])
		}
	}
}

func decodeScan(img *Image, d []byte) error {
	// entropy data ends at first FF followed by byte >= 0x80
	end := len(d)
	for i := 0; i+1 < len(d); i++ {
		if d[i] == 0xFF && d[i+1] >= 0x80 {
			end = i
			break
		}
	}
	br := &bitReader{d: d[:end]}
	p := defaults(1<<uint(img.P)-1, img.Near)
	s := newState(p, br)
	s.st = &img.Stats
	for i := 0; i+1 < end; i++ {
		if d[i] == 0xFF {
			img.Stats.StuffedFF++
		}
	}
	if end+1 < len(d) && d[end+1] == 0xD9 {
		img.Stats.EndsEOI = true
		img.Stats.Trailer = len(d) - end - 2
	}
	W, H, C := img.W, img.H, img.C
	img.Samples = make([]int, W*H*C)
	at := func(x, y, c int) int { return img.Samples[(y*W+x)*C+c] }
	// per component: value used as Ra for the first sample of the previous line
	prevRaFirst := make([]int, C)
	for y := 0; y < H; y++ {
		raFirst := make([]int, C)
		for c := 0; c < C; c++ {
			if y > 0 {
				raFirst[c] = at(0, y-1, c)
			}
		}
		nb := func(x, c int) (ra, rb, rc, rd int) {
			if y > 0 {
				rb = at(x, y-1, c)
				if x+1 < W {
					rd = at(x+1, y-1, c)
				} else {
					rd = rb
				}
			}
			if x > 0 {
				ra = at(x-1, y, c)
				if y > 0 {
					rc = at(x-1, y-1, c)
				}
			} else {
				ra = raFirst[c]
				rc = prevRaFirst[c]
			}
			return
		}
		x := 0
		for x < W {
			var ra, rb, rc, rd, q1, q2, q3 [4]int
			allZero := true
			for c := 0; c < C; c++ {
				ra[c], rb[c], rc[c], rd[c] = nb(x, c)
				q1[c], q2[c], q3[c] = s.quant(rd[c]-rb[c]), s.quant(rb[c]-rc[c]), s.quant(rc[c]-ra[c])
				if q1[c] != 0 || q2[c] != 0 || q3[c] != 0 {
					allZero = false
				}
			}
			if !allZero {
				for c := 0; c < C; c++ {
					v, err := s.regular(q1[c], q2[c], q3[c], ra[c], rb[c], rc[c])
					if err != nil {
						return err
					}
					img.Samples[(y*W+x)*C+c] = v
				}
				x++
				continue
			}
			// run mode
			remaining := W - x
			run := 0
			eol := false
			for {
				b, err := br.bit()
				if err != nil {
					return err
				}
				if b == 1 {
					n := 1 << uint(jTab[s.runIndex])
					if n > remaining-run {
						n = remaining - run
					} else if s.runIndex < 31 {
						// full run segment
						s.runIndex++
					}
					run += n
					if run == remaining {
						eol = true
						break
					}
				} else {
					n, err := br.bits(jTab[s.runIndex])
					if err != nil {
						return err
					}
					run += n
					if run > remaining {
						return errors.New("t87: run exceeds line")
					}
					break
				}
			}
			s.st.Runs++
			if eol {
				s.st.RunsToEOL++
			}
			if s.runIndex > s.st.MaxRunIndex {
				s.st.MaxRunIndex = s.runIndex
			}
			for i := 0; i < run; i++ {
				for c := 0; c < C; c++ {
					img.Samples[(y*W+x+i)*C+c] = ra[c]
				}
			}
			x += run
			if eol {
				continue
			}
			if x >= W {
				return errors.New("t87: interruption past line end")
			}
			for c := 0; c < C; c++ {
				var rbx int
				if y > 0 {
					rbx = at(x, y-1, c)
				}
				v, err := s.runInterruption(ra[c], rbx, C > 1)
				if err != nil {
					return err
				}
				img.Samples[(y*W+x)*C+c] = v
			}
			if s.runIndex > 0 {
				s.runIndex--
			}
			x++
		}
		copy(prevRaFirst, raFirst)
	}
	return nil
}

// H3Stream is the JPEG-LS stream published in T.87 Annex H.3 and H3Image its 4x4 source.
var H3Stream = []byte{0xFF, 0xD8, 0xFF, 0xF7, 0x00, 0x0B, 0x08, 0x00, 0x04, 0x00, 0x04, 0x01, 0x01, 0x11, 0x00,
	0xFF, 0xDA, 0x00, 0x08, 0x01, 0x01, 0x00, 0x00, 0x00, 0x00,
	0xC0, 0x00, 0x00, 0x6C, 0x80, 0x20, 0x8E, 0x01, 0xC0, 0x00, 0x00, 0x57, 0x40, 0x00, 0x00, 0x6E, 0xE6, 0x00, 0x00, 0x01, 0xBC, 0x18, 0x00, 0x00, 0x05, 0xD8, 0x00, 0x00, 0x91, 0x60,
	0xFF, 0xD9}
var H3Image = []int{0, 0, 90, 74, 68, 50, 43, 205, 64, 145, 145, 145, 100, 145, 145, 145}

// Defaults exposes the default coding parameters (for labels in the checks).
func Defaults(maxval, near int) (t1, t2, t3, rng, qbpp, limit int) {
	p := defaults(maxval, near)
	return p.t1, p.t2, p.t3, p.rng, p.qbpp, p.limit
}
