package t87

import "testing"


func TestH3(t *testing.T) {
	img, err := Decode(H3Stream)
	if err != nil {
		t.Fatal(err)
	}
	for i, v := range H3Image {
		if img.Samples[i] != v {
			t.Fatalf("H.3 mismatch at %d: %d != %d", i, img.Samples[i], v)
		}
	}
}
