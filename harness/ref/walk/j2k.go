package walk

import (
	"encoding/binary"
	"fmt"
)

// J2KSeg is one marker segment of a JPEG 2000 codestream header.
type J2KSeg struct {
	Marker  uint16
	Off     int    // offset of the marker
	Payload []byte // after the length field (nil for SOC/SOD/EOC)
}

// TilePart is one tile-part: SOT fields, its header segments and its body.
type TilePart struct {
	Off                 int
	Isot                int
	Psot                int
	TPsot, TNsot        int
	Header              []J2KSeg
	BodyOff             int
	Body                []byte
}

// COD holds the default coding style fields.
type COD struct {
	Scod, Prog            int
	Layers                int
	MCT                   int
	Levels                int
	CBW, CBH              int // actual sizes (2^(x+2))
	Style                 int
	Transform             int // 0 = 9/7 irreversible, 1 = 5/3 reversible
	Precincts             []byte
}

// QCD holds the default quantisation fields.
type QCD struct {
	Style, Guard int
	Exp          []int
	Mant         []int
}

// J2K is the result of walking a codestream.
type J2K struct {
	Main                           []J2KSeg
	Rsiz                           int
	Xsiz, Ysiz, XOsiz, YOsiz       uint32
	XTsiz, YTsiz, XTOsiz, YTOsiz   uint32
	Csiz                           int
	Ssiz, XRsiz, YRsiz             []byte
	COD                            *COD
	QCD                            *QCD
	TLM                            [][2]int // (tile index or -1, length) per entry over all TLM segments
	HasCAP                         bool
	Parts                          []TilePart
	FirstSOT                       int
	EOCOff                         int
	Trailer                        int
}

func be16(b []byte) int { return int(binary.BigEndian.Uint16(b)) }

// WalkJ2K parses a complete raw codestream strictly.
func WalkJ2K(d []byte) (*J2K, error) {
	j := &J2K{}
	if len(d) < 4 || d[0] != 0xFF || d[1] != 0x4F {
		return nil, fmt.Errorf("codestream does not start with SOC")
	}
	pos := 2
	first := true
	// main header
	for {
		if pos+2 > len(d) {
			return nil, fmt.Errorf("main header runs off the end")
		}
		m := be16(d[pos:])
		if m == 0xFF90 {
			break
		}
		if m < 0xFF00 {
			return nil, fmt.Errorf("marker expected at %d in the main header, found %#04x", pos, m)
		}
		if first && m != 0xFF51 {
			return nil, fmt.Errorf("SIZ must follow SOC, found %#04x", m)
		}
		first = false
		if pos+4 > len(d) {
			return nil, fmt.Errorf("truncated marker segment at %d", pos)
		}
		l := be16(d[pos+2:])
		if l < 2 || pos+2+l > len(d) {
			return nil, fmt.Errorf("segment %#04x at %d: length %d exceeds the codestream", m, pos, l)
		}
		p := d[pos+4 : pos+2+l]
		j.Main = append(j.Main, J2KSeg{Marker: uint16(m), Off: pos, Payload: p})
		if err := j.mainSeg(m, p); err != nil {
			return nil, err
		}
		pos += 2 + l
	}
	if j.Csiz == 0 {
		return nil, fmt.Errorf("no SIZ")
	}
	if j.COD == nil || j.QCD == nil {
		return nil, fmt.Errorf("main header lacks COD or QCD")
	}
	j.FirstSOT = pos
	// tile-parts
	for {
		if pos+2 > len(d) {
			return nil, fmt.Errorf("codestream ends without EOC")
		}
		m := be16(d[pos:])
		if m == 0xFFD9 {
			j.EOCOff = pos
			j.Trailer = len(d) - pos - 2
			break
		}
		if m != 0xFF90 {
			return nil, fmt.Errorf("SOT or EOC expected at %d, found %#04x", pos, m)
		}
		if pos+12 > len(d) || be16(d[pos+2:]) != 10 {
			return nil, fmt.Errorf("bad SOT at %d", pos)
		}
		tp := TilePart{Off: pos, Isot: be16(d[pos+4:]), Psot: int(binary.BigEndian.Uint32(d[pos+6:])), TPsot: int(d[pos+10]), TNsot: int(d[pos+11])}
		if tp.Psot < 14 || pos+tp.Psot > len(d) {
			return nil, fmt.Errorf("tile-part at %d: Psot=%d does not fit the %d remaining bytes", pos, tp.Psot, len(d)-pos)
		}
		q := pos + 12
		for {
			if q+2 > pos+tp.Psot {
				return nil, fmt.Errorf("tile-part at %d: no SOD within Psot", pos)
			}
			mm := be16(d[q:])
			if mm == 0xFF93 {
				q += 2
				break
			}
			if mm < 0xFF00 || q+4 > len(d) {
				return nil, fmt.Errorf("tile-part header at %d: marker expected, found %#04x", q, mm)
			}
			l := be16(d[q+2:])
			if l < 2 || q+2+l > pos+tp.Psot {
				return nil, fmt.Errorf("tile-part header segment %#04x at %d overruns Psot", mm, q)
			}
			tp.Header = append(tp.Header, J2KSeg{Marker: uint16(mm), Off: q, Payload: d[q+4 : q+2+l]})
			q += 2 + l
		}
		tp.BodyOff = q
		tp.Body = d[q : pos+tp.Psot]
		j.Parts = append(j.Parts, tp)
		pos += tp.Psot
	}
	if len(j.Parts) == 0 {
		return nil, fmt.Errorf("no tile-parts")
	}
	return j, nil
}

func (j *J2K) mainSeg(m int, p []byte) error {
	switch m {
	case 0xFF51:
		if len(p) < 36 {
			return fmt.Errorf("SIZ too short")
		}
		j.Rsiz = be16(p)
		j.Xsiz, j.Ysiz = binary.BigEndian.Uint32(p[2:]), binary.BigEndian.Uint32(p[6:])
		j.XOsiz, j.YOsiz = binary.BigEndian.Uint32(p[10:]), binary.BigEndian.Uint32(p[14:])
		j.XTsiz, j.YTsiz = binary.BigEndian.Uint32(p[18:]), binary.BigEndian.Uint32(p[22:])
		j.XTOsiz, j.YTOsiz = binary.BigEndian.Uint32(p[26:]), binary.BigEndian.Uint32(p[30:])
		j.Csiz = be16(p[34:])
		if len(p) != 36+3*j.Csiz {
			return fmt.Errorf("SIZ length %d does not match Csiz=%d", len(p)+2, j.Csiz)
		}
		for c := 0; c < j.Csiz; c++ {
			j.Ssiz = append(j.Ssiz, p[36+3*c])
			j.XRsiz = append(j.XRsiz, p[37+3*c])
			j.YRsiz = append(j.YRsiz, p[38+3*c])
		}
	case 0xFF52:
		if len(p) < 10 {
			return fmt.Errorf("COD too short")
		}
		c := &COD{Scod: int(p[0]), Prog: int(p[1]), Layers: be16(p[2:]), MCT: int(p[4]), Levels: int(p[5]),
			CBW: 1 << uint(int(p[6])+2), CBH: 1 << uint(int(p[7])+2), Style: int(p[8]), Transform: int(p[9])}
		if c.Scod&1 == 1 {
			if len(p) != 10+c.Levels+1 {
				return fmt.Errorf("COD with precincts: length %d does not match %d levels", len(p)+2, c.Levels)
			}
			c.Precincts = p[10:]
		} else if len(p) != 10 {
			return fmt.Errorf("COD length %d without precinct sizes", len(p)+2)
		}
		j.COD = c
	case 0xFF5C:
		if len(p) < 1 {
			return fmt.Errorf("QCD empty")
		}
		q := &QCD{Style: int(p[0] & 0x1F), Guard: int(p[0] >> 5)}
		switch q.Style {
		case 0:
			for _, b := range p[1:] {
				q.Exp = append(q.Exp, int(b>>3))
				q.Mant = append(q.Mant, 0)
			}
		case 1, 2:
			if (len(p)-1)%2 != 0 {
				return fmt.Errorf("QCD: odd SPqcd length")
			}
			for i := 1; i+1 < len(p); i += 2 {
				v := be16(p[i:])
				q.Exp = append(q.Exp, v>>11)
				q.Mant = append(q.Mant, v&0x7FF)
			}
		default:
			return fmt.Errorf("QCD: quantisation style %d", q.Style)
		}
		j.QCD = q
	case 0xFF50:
		j.HasCAP = true
	case 0xFF55: // TLM
		if len(p) < 2 {
			return fmt.Errorf("TLM too short")
		}
		st, sp := int(p[1]>>4)&3, int(p[1]>>6)&1
		tsz := st
		lsz := 2
		if sp == 1 {
			lsz = 4
		}
		q := p[2:]
		if len(q)%(tsz+lsz) != 0 {
			return fmt.Errorf("TLM: payload %d not a multiple of the entry size %d", len(q), tsz+lsz)
		}
		for len(q) > 0 {
			ti := -1
			switch tsz {
			case 1:
				ti = int(q[0])
			case 2:
				ti = be16(q)
			}
			var ln int
			if lsz == 2 {
				ln = be16(q[tsz:])
			} else {
				ln = int(binary.BigEndian.Uint32(q[tsz:]))
			}
			j.TLM = append(j.TLM, [2]int{ti, ln})
			q = q[tsz+lsz:]
		}
	}
	return nil
}

// Check verifies the self-delimiting / length-consistency facts of property C16.
func (j *J2K) Check(total int) error {
	if j.Trailer != 0 {
		return fmt.Errorf("%d bytes follow EOC", j.Trailer)
	}
	// the default quantisation segment describes the default coding style (T.800 A.6.4: one
	// entry per sub-band, 3 x levels + 1, for styles 0 and 2; exactly one for the derived style;
	// no quantisation with the 5/3 transform, scalar quantisation with the 9/7)
	if j.COD != nil && j.QCD != nil {
		nb := 3*j.COD.Levels + 1
		switch {
		case j.QCD.Style == 1 && len(j.QCD.Exp) != 1:
			return fmt.Errorf("QCD style 1 (derived) carries %d step sizes", len(j.QCD.Exp))
		case j.QCD.Style != 1 && len(j.QCD.Exp) != nb:
			return fmt.Errorf("QCD carries %d entries, COD declares %d levels (%d sub-bands)", len(j.QCD.Exp), j.COD.Levels, nb)
		case j.COD.Transform == 1 && j.QCD.Style != 0:
			return fmt.Errorf("QCD style %d with the reversible transform", j.QCD.Style)
		case j.COD.Transform == 0 && j.QCD.Style == 0:
			return fmt.Errorf("QCD style 0 (no quantisation) with the irreversible transform")
		case j.COD.Transform > 1:
			return fmt.Errorf("COD transform %d", j.COD.Transform)
		case j.COD.MCT > 1 || (j.COD.MCT == 1 && j.Csiz < 3):
			return fmt.Errorf("COD multiple component transform %d with %d components", j.COD.MCT, j.Csiz)
		case j.COD.Prog > 4:
			return fmt.Errorf("COD progression order %d", j.COD.Prog)
		case j.COD.Layers < 1:
			return fmt.Errorf("COD declares %d layers", j.COD.Layers)
		}
	}
	sum := 0
	for _, tp := range j.Parts {
		sum += tp.Psot
	}
	if sum != j.EOCOff-j.FirstSOT {
		return fmt.Errorf("sum of Psot = %d but %d bytes lie between the first SOT and EOC", sum, j.EOCOff-j.FirstSOT)
	}
	if len(j.TLM) > 0 {
		if len(j.TLM) != len(j.Parts) {
			return fmt.Errorf("TLM lists %d tile-parts, codestream has %d", len(j.TLM), len(j.Parts))
		}
		for i, e := range j.TLM {
			if e[1] != j.Parts[i].Psot {
				return fmt.Errorf("TLM entry %d length %d != Psot %d", i, e[1], j.Parts[i].Psot)
			}
			if e[0] >= 0 && e[0] != j.Parts[i].Isot {
				return fmt.Errorf("TLM entry %d tile %d != Isot %d", i, e[0], j.Parts[i].Isot)
			}
		}
	}
	for i, tp := range j.Parts {
		b := tp.Body
		for k := 0; k+1 < len(b); k++ {
			if b[k] == 0xFF && b[k+1] >= 0x90 {
				return fmt.Errorf("tile-part %d body contains marker code FF%02X at body offset %d", i, b[k+1], k)
			}
		}
		if len(b) > 0 && b[len(b)-1] == 0xFF {
			return fmt.Errorf("tile-part %d body ends in 0xFF", i)
		}
	}
	return nil
}

// BodyFFCount counts 0xFF bytes in all tile-part bodies.
func (j *J2K) BodyFFCount() int {
	n := 0
	for _, tp := range j.Parts {
		for _, b := range tp.Body {
			if b == 0xFF {
				n++
			}
		}
	}
	return n
}
