// Package walk contains strict, independent marker-segment walkers for the codestream
// formats the library emits (JPEG T.81, JPEG-LS T.87, JPEG 2000 T.800, DICOM RLE).
// They are validity predicates for property C16 and segment maps for C08/C11/C12.
package walk

import (
	"fmt"
)

// JSeg is one marker segment of a JPEG / JPEG-LS stream.
type JSeg struct {
	Marker  byte   // second byte of the marker (0xD8 SOI, 0xC0.. SOF, ...)
	Off     int    // offset of the 0xFF of the marker
	Payload []byte // segment content after the 2-byte length (nil for stand-alone markers)
}

// JPEG is the result of walking a JPEG-family stream.
type JPEG struct {
	Segs []JSeg
	// frame header
	SOF                 byte // marker of the frame header (0xC0,0xC1,0xC3,0xF7)
	P, Y, X, Nf         int
	CompID, HV, Tq      []byte
	NumSOF              int
	// scans
	Scans []JScan
	// DQT tables by id (values in zig-zag order as written), precision 0/1
	DQT     map[int][]int
	DRI     int
	EndsEOI bool
	Trailer int // bytes after EOI
}

// JScan is one scan: its header fields and its entropy-coded bytes.
type JScan struct {
	Ns         int
	Cs, TdTa   []byte
	Ss, Se, Ah byte // for JPEG-LS: Ss=NEAR, Se=ILV, Ah=point transform byte
	Al         byte
	ECSOff     int
	ECS        []byte // entropy-coded segment(s), including RSTn markers if any
	FFCount    int    // number of 0xFF bytes inside ECS
	FillBytes  int    // 0xFF bytes directly in front of a marker (T.81 B.1.1.2 fill bytes)
}

func standalone(m byte) bool {
	return m == 0xD8 || m == 0xD9 || (m >= 0xD0 && m <= 0xD7) || m == 0x01
}

// WalkJPEG parses a complete stream strictly. ls selects JPEG-LS escaping rules (a 0xFF in
// the entropy-coded data must be followed by a byte < 0x80) instead of T.81's FF00.
func WalkJPEG(d []byte, ls bool) (*JPEG, error) {
	j := &JPEG{DQT: map[int][]int{}}
	if len(d) < 4 || d[0] != 0xFF || d[1] != 0xD8 {
		return nil, fmt.Errorf("stream does not start with SOI")
	}
	j.Segs = append(j.Segs, JSeg{Marker: 0xD8, Off: 0})
	pos := 2
	for {
		if pos+2 > len(d) {
			return nil, fmt.Errorf("stream ends without EOI (offset %d)", pos)
		}
		if d[pos] != 0xFF {
			return nil, fmt.Errorf("marker expected at offset %d, found %#02x", pos, d[pos])
		}
		m := d[pos+1]
		if m == 0xFF || m == 0x00 {
			return nil, fmt.Errorf("invalid marker FF%02X at offset %d", m, pos)
		}
		if m == 0xD9 {
			j.Segs = append(j.Segs, JSeg{Marker: m, Off: pos})
			j.EndsEOI = true
			j.Trailer = len(d) - (pos + 2)
			return j, nil
		}
		if standalone(m) {
			return nil, fmt.Errorf("unexpected stand-alone marker FF%02X at offset %d", m, pos)
		}
		if pos+4 > len(d) {
			return nil, fmt.Errorf("truncated segment header at %d", pos)
		}
		l := int(d[pos+2])<<8 | int(d[pos+3])
		if l < 2 || pos+2+l > len(d) {
			return nil, fmt.Errorf("segment FF%02X at %d: length %d exceeds the stream", m, pos, l)
		}
		p := d[pos+4 : pos+2+l]
		j.Segs = append(j.Segs, JSeg{Marker: m, Off: pos, Payload: p})
		pos += 2 + l
		switch {
		case m == 0xC0 || m == 0xC1 || m == 0xC2 || m == 0xC3 || m == 0xF7:
			j.NumSOF++
			if len(p) < 6 {
				return nil, fmt.Errorf("frame header too short")
			}
			j.SOF, j.P, j.Y, j.X, j.Nf = m, int(p[0]), int(p[1])<<8|int(p[2]), int(p[3])<<8|int(p[4]), int(p[5])
			if len(p) != 6+3*j.Nf {
				return nil, fmt.Errorf("frame header length %d does not match Nf=%d", len(p)+2, j.Nf)
			}
			j.CompID, j.HV, j.Tq = nil, nil, nil
			for i := 0; i < j.Nf; i++ {
				j.CompID = append(j.CompID, p[6+3*i])
				j.HV = append(j.HV, p[7+3*i])
				j.Tq = append(j.Tq, p[8+3*i])
			}
		case m == 0xDB:
			q := p
			for len(q) > 0 {
				pq, tq := int(q[0]>>4), int(q[0]&15)
				n := 64 * (pq + 1)
				if pq > 1 || tq > 3 || len(q) < 1+n {
					return nil, fmt.Errorf("DQT: bad Pq/Tq %#02x or short table", q[0])
				}
				t := make([]int, 64)
				for i := 0; i < 64; i++ {
					if pq == 0 {
						t[i] = int(q[1+i])
					} else {
						t[i] = int(q[1+2*i])<<8 | int(q[2+2*i])
					}
				}
				j.DQT[tq] = t
				q = q[1+n:]
			}
		case m == 0xC4:
			q := p
			for len(q) > 0 {
				if len(q) < 17 {
					return nil, fmt.Errorf("DHT: short table header")
				}
				n := 0
				for i := 1; i <= 16; i++ {
					n += int(q[i])
				}
				if len(q) < 17+n {
					return nil, fmt.Errorf("DHT: length does not match BITS")
				}
				q = q[17+n:]
			}
		case m == 0xDD:
			if len(p) != 2 {
				return nil, fmt.Errorf("DRI length")
			}
			j.DRI = int(p[0])<<8 | int(p[1])
		case m == 0xDA:
			if len(p) < 1 {
				return nil, fmt.Errorf("SOS empty")
			}
			ns := int(p[0])
			if len(p) != 4+2*ns {
				return nil, fmt.Errorf("SOS length %d does not match Ns=%d", len(p)+2, ns)
			}
			sc := JScan{Ns: ns, Ss: p[1+2*ns], Se: p[2+2*ns], Ah: p[3+2*ns] >> 4, Al: p[3+2*ns] & 15, ECSOff: pos}
			for i := 0; i < ns; i++ {
				sc.Cs = append(sc.Cs, p[1+2*i])
				sc.TdTa = append(sc.TdTa, p[2+2*i])
			}
			// entropy-coded data up to the next marker that is not RSTn
			i := pos
			for {
				if i >= len(d) {
					return nil, fmt.Errorf("entropy-coded data runs to the end of the stream without a marker")
				}
				if d[i] != 0xFF {
					i++
					continue
				}
				if i+1 >= len(d) {
					return nil, fmt.Errorf("stream ends with a lone 0xFF")
				}
				n := d[i+1]
				if ls {
					if n < 0x80 {
						sc.FFCount++
						i += 2
						continue
					}
				} else {
					if n == 0x00 {
						sc.FFCount++
						i += 2
						continue
					}
					if n == 0xFF { // fill byte
						sc.FillBytes++
						i++
						continue
					}
				}
				if n >= 0xD0 && n <= 0xD7 {
					i += 2
					continue
				}
				break
			}
			sc.ECS = d[pos:i]
			j.Scans = append(j.Scans, sc)
			pos = i
		}
	}
}

// DHTTables returns (class, id, lengths per symbol) for every Huffman table in the stream.
type DHTTable struct {
	Class, ID int
	Bits      [17]int
	Vals      []byte
}

func (j *JPEG) DHT() []DHTTable {
	var out []DHTTable
	for _, s := range j.Segs {
		if s.Marker != 0xC4 {
			continue
		}
		q := s.Payload
		for len(q) >= 17 {
			t := DHTTable{Class: int(q[0] >> 4), ID: int(q[0] & 15)}
			n := 0
			for i := 1; i <= 16; i++ {
				t.Bits[i] = int(q[i])
				n += int(q[i])
			}
			if len(q) < 17+n {
				break
			}
			t.Vals = append([]byte(nil), q[17:17+n]...)
			out = append(out, t)
			q = q[17+n:]
		}
	}
	return out
}
