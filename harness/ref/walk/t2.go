package walk

import (
	"errors"
	"fmt"
)

// An independent reader of the packet structure of a JPEG 2000 codestream (T.800 Annex B:
// B.5-B.7 geometry, B.10 packet headers, B.12 progression orders), written from the
// Recommendation and sharing nothing with the library's tier-2 code. It is the oracle for
// "packet header stuffing and terminal 0xFF padding" and for "the lengths in the stream add up
// to the bytes present" at packet level: every tile's data must split exactly into the packets
// the main header announces.
//
// Supported (everything the library's encoders emit): one COD for all components, no
// sub-sampling, no PPM/PPT/POC, code-block style 0 (one codeword segment per contribution) and
// the HT style 0x40 with one coding pass per contribution. Anything else returns ErrT2Unsupported.

// ErrT2Unsupported reports a codestream feature the packet reader does not model.
type ErrT2Unsupported struct{ What string }

func (e *ErrT2Unsupported) Error() string { return "packet reader: unsupported: " + e.What }

// T2Stats describes what the packet walk saw.
type T2Stats struct {
	Packets, NonEmpty int
	Blocks            int // code-block contributions
	HeaderStuffed     int // packet headers whose last byte was 0xFF (terminal stuffing byte present)
	HeaderFF          int // 0xFF bytes inside packet headers (bit stuffing exercised)
	MaxLblock         int
	MaxLen            int // longest single contribution in bytes
	MaxPasses         int
	Precincts         int // largest number of precincts in one resolution
	// OmitsEmptyPrecincts: the data only divides when precincts without code-blocks have no packets
	OmitsEmptyPrecincts bool
	// TileLocalGeometry: the data only divides when partitions are anchored at each tile's corner
	TileLocalGeometry bool
}

type t2bits struct {
	d           []byte
	pos         int  // next byte
	cur         byte // current byte
	left        int  // bits left in cur
	ffs         int
	startedFlag bool // a byte of this header has been loaded
}

func (b *t2bits) bit() (int, error) {
	if b.left == 0 {
		if b.pos >= len(b.d) {
			return 0, fmt.Errorf("packet header runs past the end of the tile data")
		}
		prevFF := b.startedFlag && b.cur == 0xFF
		b.cur = b.d[b.pos]
		b.pos++
		b.left = 8
		b.startedFlag = true
		if prevFF {
			if b.cur&0x80 != 0 {
				return 0, fmt.Errorf("packet header: byte %#02x after 0xFF has its stuffing bit set (offset %d of the tile data)", b.cur, b.pos-1)
			}
			b.left = 7
		}
		if b.cur == 0xFF {
			b.ffs++
		}
	}
	b.left--
	return int(b.cur>>uint(b.left)) & 1, nil
}

type tagNode struct {
	value, low int
	parent     *tagNode
}

type tagTree struct {
	w, h   int
	leaves []*tagNode
}

const tagInf = 1 << 30

func newTagTree(w, h int) *tagTree {
	t := &tagTree{w: w, h: h}
	if w == 0 || h == 0 {
		return t
	}
	type level struct {
		w, h  int
		nodes []*tagNode
	}
	var levels []level
	cw, ch := w, h
	for {
		l := level{w: cw, h: ch, nodes: make([]*tagNode, cw*ch)}
		for i := range l.nodes {
			l.nodes[i] = &tagNode{value: tagInf}
		}
		levels = append(levels, l)
		if cw == 1 && ch == 1 {
			break
		}
		cw, ch = (cw+1)/2, (ch+1)/2
	}
	for li := 0; li+1 < len(levels); li++ {
		l, up := levels[li], levels[li+1]
		for y := 0; y < l.h; y++ {
			for x := 0; x < l.w; x++ {
				l.nodes[y*l.w+x].parent = up.nodes[(y/2)*up.w+x/2]
			}
		}
	}
	t.leaves = levels[0].nodes
	return t
}

// decode implements the tag tree decoding procedure of B.10.2: it returns whether the value of
// the leaf is known to be below the threshold.
func (t *tagTree) decode(br *t2bits, leaf, threshold int) (bool, error) {
	var path []*tagNode
	for n := t.leaves[leaf]; n != nil; n = n.parent {
		path = append(path, n)
	}
	low := 0
	for i := len(path) - 1; i >= 0; i-- {
		n := path[i]
		if low > n.low {
			n.low = low
		} else {
			low = n.low
		}
		for low < threshold && low < n.value {
			b, err := br.bit()
			if err != nil {
				return false, err
			}
			if b == 1 {
				n.value = low
			} else {
				low++
			}
		}
		n.low = low
	}
	return t.leaves[leaf].value < threshold, nil
}

type t2block struct {
	included bool
	lblock   int
}

type t2band struct {
	nx, ny int // code-blocks in this precinct-band
	incl   *tagTree
	zbp    *tagTree
	blocks []t2block
}

type t2precinct struct {
	bands []*t2band
}

type t2res struct {
	pw, ph     int // precincts wide / high
	trx0, try0 int
	ppx, ppy   int
	precincts  []*t2precinct
}

func ceilDiv(a, b int) int { return (a + b - 1) / b }
func floorLog2(v int) int {
	n := 0
	for v > 1 {
		v >>= 1
		n++
	}
	return n
}

// buildRes lays out resolution r of a tile-component [x0,x1)x[y0,y1) (B.5-B.7).
func buildRes(x0, y0, x1, y1, nl, r int, cod *COD) *t2res {
	d := nl - r
	res := &t2res{trx0: ceilDiv(x0, 1<<d), try0: ceilDiv(y0, 1<<d)}
	trx1, try1 := ceilDiv(x1, 1<<d), ceilDiv(y1, 1<<d)
	res.ppx, res.ppy = 15, 15
	if cod.Scod&1 != 0 && r < len(cod.Precincts) {
		res.ppx, res.ppy = int(cod.Precincts[r]&15), int(cod.Precincts[r]>>4)
	}
	if trx1 > res.trx0 {
		res.pw = ceilDiv(trx1, 1<<res.ppx) - res.trx0>>res.ppx
	}
	if try1 > res.try0 {
		res.ph = ceilDiv(try1, 1<<res.ppy) - res.try0>>res.ppy
	}
	type bandDef struct{ xo, yo, nb int }
	var defs []bandDef
	if r == 0 {
		defs = []bandDef{{0, 0, nl}}
	} else {
		nb := nl - r + 1
		defs = []bandDef{{1, 0, nb}, {0, 1, nb}, {1, 1, nb}}
	}
	// code-block exponents limited by the precinct size
	xcb, ycb := floorLog2(cod.CBW), floorLog2(cod.CBH)
	pbx, pby := res.ppx, res.ppy // precinct exponent in band coordinates
	if r > 0 {
		if res.ppx == 0 || res.ppy == 0 {
			// A.6.1: a precinct exponent of 0 is only allowed at the lowest resolution
			return nil
		}
		pbx, pby = res.ppx-1, res.ppy-1
	}
	if xcb > pbx {
		xcb = pbx
	}
	if ycb > pby {
		ycb = pby
	}
	for py := 0; py < res.ph; py++ {
		for px := 0; px < res.pw; px++ {
			p := &t2precinct{}
			// precinct indices on the anchored grid
			gx, gy := res.trx0>>res.ppx+px, res.try0>>res.ppy+py
			for _, bd := range defs {
				var bx0, by0, bx1, by1 int
				if r == 0 {
					bx0, by0, bx1, by1 = ceilDiv(x0, 1<<bd.nb), ceilDiv(y0, 1<<bd.nb), ceilDiv(x1, 1<<bd.nb), ceilDiv(y1, 1<<bd.nb)
				} else {
					h := 1 << (bd.nb - 1)
					bx0, by0 = ceilDiv(x0-h*bd.xo, 1<<bd.nb), ceilDiv(y0-h*bd.yo, 1<<bd.nb)
					bx1, by1 = ceilDiv(x1-h*bd.xo, 1<<bd.nb), ceilDiv(y1-h*bd.yo, 1<<bd.nb)
				}
				// the precinct's region of the band
				qx0, qy0 := max(gx<<pbx, bx0), max(gy<<pby, by0)
				qx1, qy1 := min((gx+1)<<pbx, bx1), min((gy+1)<<pby, by1)
				b := &t2band{}
				if qx1 > qx0 && qy1 > qy0 {
					b.nx = ceilDiv(qx1, 1<<xcb) - qx0>>xcb
					b.ny = ceilDiv(qy1, 1<<ycb) - qy0>>ycb
				}
				b.incl, b.zbp = newTagTree(b.nx, b.ny), newTagTree(b.nx, b.ny)
				b.blocks = make([]t2block, b.nx*b.ny)
				p.bands = append(p.bands, b)
			}
			res.precincts = append(res.precincts, p)
		}
	}
	return res
}

type t2tile struct {
	x0, y0, x1, y1 int
	comps          [][]*t2res // [component][resolution]
}

// packetRef names one packet of a tile.
type packetRef struct{ l, r, c, p int }

// progression lists the packets of a tile in codestream order (B.12), without sub-sampling.
func (t *t2tile) progression(order, layers, nl, ncomp int) []packetRef {
	var out []packetRef
	np := func(c, r int) int { return len(t.comps[c][r].precincts) }
	switch order {
	case 0: // LRCP
		for l := 0; l < layers; l++ {
			for r := 0; r <= nl; r++ {
				for c := 0; c < ncomp; c++ {
					for p := 0; p < np(c, r); p++ {
						out = append(out, packetRef{l, r, c, p})
					}
				}
			}
		}
	case 1: // RLCP
		for r := 0; r <= nl; r++ {
			for l := 0; l < layers; l++ {
				for c := 0; c < ncomp; c++ {
					for p := 0; p < np(c, r); p++ {
						out = append(out, packetRef{l, r, c, p})
					}
				}
			}
		}
	default:
		// position-driven orders: walk the tile on the reference grid; a precinct of
		// resolution r starts at (x,y) when x,y are multiples of its size on the grid
		// (or the tile origin falls inside it).
		// B.12.1.3-5: at a position (x,y) that starts a precinct of (c,r) on the reference grid,
		// "the next precinct, if one exists" is taken.
		counter := make([][]int, ncomp)
		for c := range counter {
			counter[c] = make([]int, nl+1)
		}
		at := func(c, r, x, y int) (int, bool) {
			res := t.comps[c][r]
			d := nl - r
			sx, sy := 1<<(res.ppx+d), 1<<(res.ppy+d)
			okY := y%sy == 0 || (y == t.y0 && (res.try0<<d)%sy != 0)
			okX := x%sx == 0 || (x == t.x0 && (res.trx0<<d)%sx != 0)
			if !okX || !okY || counter[c][r] >= len(res.precincts) {
				return 0, false
			}
			counter[c][r]++
			return counter[c][r] - 1, true
		}
		// smallest step that can start a precinct
		step := func() (int, int) {
			sx, sy := 1<<30, 1<<30
			for c := 0; c < ncomp; c++ {
				for r := 0; r <= nl; r++ {
					res := t.comps[c][r]
					sx, sy = min(sx, 1<<(res.ppx+nl-r)), min(sy, 1<<(res.ppy+nl-r))
				}
			}
			return sx, sy
		}
		sx, sy := step()
		next := func(v, s int) int { return (v/s + 1) * s }
		switch order {
		case 2: // RPCL
			for r := 0; r <= nl; r++ {
				for y := t.y0; y < t.y1; y = next(y, sy) {
					for x := t.x0; x < t.x1; x = next(x, sx) {
						for c := 0; c < ncomp; c++ {
							if p, ok := at(c, r, x, y); ok {
								for l := 0; l < layers; l++ {
									out = append(out, packetRef{l, r, c, p})
								}
							}
						}
					}
				}
			}
		case 3: // PCRL
			for y := t.y0; y < t.y1; y = next(y, sy) {
				for x := t.x0; x < t.x1; x = next(x, sx) {
					for c := 0; c < ncomp; c++ {
						for r := 0; r <= nl; r++ {
							if p, ok := at(c, r, x, y); ok {
								for l := 0; l < layers; l++ {
									out = append(out, packetRef{l, r, c, p})
								}
							}
						}
					}
				}
			}
		case 4: // CPRL
			for c := 0; c < ncomp; c++ {
				for y := t.y0; y < t.y1; y = next(y, sy) {
					for x := t.x0; x < t.x1; x = next(x, sx) {
						for r := 0; r <= nl; r++ {
							if p, ok := at(c, r, x, y); ok {
								for l := 0; l < layers; l++ {
									out = append(out, packetRef{l, r, c, p})
								}
							}
						}
					}
				}
			}
		}
	}
	return out
}

// WalkPackets splits every tile's data into packets and verifies that it divides exactly.
//
// T.800 B.6 (note under the precinct definition) requires that every packet of a precinct that
// holds no code-block still appears in the codestream. The library's encoder omits those
// packets (and its decoder does not expect them). That is a deviation from T.800, but not one
// the listed properties speak about, so the reader accepts either convention and reports which
// one fitted in T2Stats.OmitsEmptyPrecincts.
//
// The same holds for tiles that do not start at the origin: T.800 anchors the code-block and
// precinct partitions at the origin of the canvas, the library's encoder anchors them at the
// tile's corner (open findings KF-C19-1/2 are the decoding side of that). A stream that only
// divides under tile-local anchoring is reported with T2Stats.TileLocalGeometry.
//
// Precincts: for resolutions above 0 the library assigns code-blocks to precincts on a
// composite (LL|HL / LH|HH) layout of the resolution instead of partitioning each sub-band
// (B.6, Figure B.8); with more than one precinct at such a resolution its packets cannot be
// read by a T.800 reader at all, and WalkPackets returns ErrT2Unsupported for them. Likewise
// the library does not limit the code-block size by the precinct size (B.7); streams whose
// declared code-block exceeds a multi-precinct resolution's precinct size are not modelled.
func (j *J2K) WalkPackets() (*T2Stats, error) {
	st, err := j.walkPackets(false, false)
	if err == nil {
		return st, nil
	}
	var u *ErrT2Unsupported
	if errors.As(err, &u) {
		return st, err
	}
	for _, v := range [][2]bool{{true, false}, {false, true}, {true, true}} {
		if len(j.Parts) < 2 && v[1] {
			continue
		}
		if st2, err2 := j.walkPackets(v[0], v[1]); err2 == nil {
			st2.OmitsEmptyPrecincts, st2.TileLocalGeometry = v[0], v[1]
			return st2, nil
		}
	}
	return st, err
}

func (p *t2precinct) empty() bool {
	for _, b := range p.bands {
		if len(b.blocks) > 0 {
			return false
		}
	}
	return true
}

func (j *J2K) walkPackets(omitEmpty, tileLocal bool) (*T2Stats, error) {
	st := &T2Stats{}
	cod := j.COD
	if cod == nil {
		return nil, fmt.Errorf("no COD")
	}
	for i := range j.XRsiz {
		if j.XRsiz[i] != 1 || j.YRsiz[i] != 1 {
			return nil, &ErrT2Unsupported{"component sub-sampling"}
		}
	}
	for _, s := range j.Main {
		switch s.Marker {
		case 0xFF53, 0xFF5D, 0xFF5F, 0xFF60, 0xFF61, 0xFF5E:
			return nil, &ErrT2Unsupported{fmt.Sprintf("marker %04X in the main header", s.Marker)}
		}
	}
	ht := cod.Style&0x40 != 0
	if cod.Style&^0x40 != 0 {
		return nil, &ErrT2Unsupported{fmt.Sprintf("code-block style %#02x", cod.Style)}
	}
	if cod.Prog > 4 {
		return nil, fmt.Errorf("progression order %d", cod.Prog)
	}
	if j.XTsiz == 0 || j.YTsiz == 0 {
		return nil, fmt.Errorf("zero tile size")
	}
	ntx := ceilDiv(int(j.Xsiz)-int(j.XTOsiz), int(j.XTsiz))
	// gather tile data in tile-part order
	data := map[int][]byte{}
	var order []int
	for _, tp := range j.Parts {
		for _, s := range tp.Header {
			switch s.Marker {
			case 0xFF52, 0xFF53, 0xFF5C, 0xFF5D, 0xFF5F, 0xFF61, 0xFF5E:
				return nil, &ErrT2Unsupported{fmt.Sprintf("marker %04X in a tile-part header", s.Marker)}
			}
		}
		if _, ok := data[tp.Isot]; !ok {
			order = append(order, tp.Isot)
		}
		data[tp.Isot] = append(data[tp.Isot], tp.Body...)
	}
	nl := cod.Levels
	for _, ti := range order {
		d := data[ti]
		tx, ty := ti%ntx, ti/ntx
		t := &t2tile{
			x0: max(int(j.XTOsiz)+tx*int(j.XTsiz), int(j.XOsiz)), y0: max(int(j.YTOsiz)+ty*int(j.YTsiz), int(j.YOsiz)),
			x1: min(int(j.XTOsiz)+(tx+1)*int(j.XTsiz), int(j.Xsiz)), y1: min(int(j.YTOsiz)+(ty+1)*int(j.YTsiz), int(j.Ysiz)),
		}
		if tileLocal {
			t.x1, t.y1 = t.x1-t.x0, t.y1-t.y0
			t.x0, t.y0 = 0, 0
		}
		for c := 0; c < j.Csiz; c++ {
			var rs []*t2res
			for r := 0; r <= nl; r++ {
				res := buildRes(t.x0, t.y0, t.x1, t.y1, nl, r, cod)
				if res != nil && r == 0 && len(res.precincts) > 1 && (floorLog2(cod.CBW) > res.ppx || floorLog2(cod.CBH) > res.ppy) {
					return st, &ErrT2Unsupported{"declared code-block larger than the precinct (the library does not limit the code-block size by the precinct size, B.7)"}
				}
				if res != nil && r > 0 && len(res.precincts) > 1 {
					return st, &ErrT2Unsupported{"more than one precinct at a resolution above 0 (the library's precinct layout is not T.800's)"}
				}
				if res == nil {
					return st, fmt.Errorf("COD declares a precinct exponent of 0 at resolution %d (allowed only at resolution 0): %x", r, cod.Precincts)
				}
				st.Precincts = max(st.Precincts, len(res.precincts))
				rs = append(rs, res)
			}
			t.comps = append(t.comps, rs)
		}
		pos := 0
		for _, pk := range t.progression(cod.Prog, cod.Layers, nl, j.Csiz) {
			where := fmt.Sprintf("tile %d packet (layer %d, resolution %d, component %d, precinct %d)", ti, pk.l, pk.r, pk.c, pk.p)
			if omitEmpty && t.comps[pk.c][pk.r].precincts[pk.p].empty() {
				continue
			}
			if cod.Scod&2 != 0 { // SOP
				if pos+6 <= len(d) && d[pos] == 0xFF && d[pos+1] == 0x91 {
					if d[pos+2] != 0 || d[pos+3] != 4 {
						return st, fmt.Errorf("%s: SOP length field is not 4", where)
					}
					pos += 6
				}
			}
			br := &t2bits{d: d[pos:]}
			nz, err := br.bit()
			if err != nil {
				return st, fmt.Errorf("%s: %v (after %d packets; the tile data does not hold the packets the header announces)", where, err, st.Packets)
			}
			st.Packets++
			body := 0
			if nz == 1 {
				st.NonEmpty++
				prec := t.comps[pk.c][pk.r].precincts[pk.p]
				for _, b := range prec.bands {
					for k := range b.blocks {
						cb := &b.blocks[k]
						var inc bool
						if !cb.included {
							inc, err = b.incl.decode(br, k, pk.l+1)
						} else {
							var v int
							v, err = br.bit()
							inc = v == 1
						}
						if err != nil {
							return st, fmt.Errorf("%s: %v", where, err)
						}
						if !inc {
							continue
						}
						if !cb.included {
							for th := 1; ; th++ {
								known, err := b.zbp.decode(br, k, th)
								if err != nil {
									return st, fmt.Errorf("%s: %v", where, err)
								}
								if known {
									break
								}
								if th > 64 {
									return st, fmt.Errorf("%s: more than 64 missing bit-planes signalled", where)
								}
							}
							cb.included, cb.lblock = true, 3
						}
						np, err := readPasses(br)
						if err != nil {
							return st, fmt.Errorf("%s: %v", where, err)
						}
						if ht && np > 1 {
							return st, &ErrT2Unsupported{"HT contribution with more than one pass"}
						}
						for {
							v, err := br.bit()
							if err != nil {
								return st, fmt.Errorf("%s: %v", where, err)
							}
							if v == 0 {
								break
							}
							cb.lblock++
							if cb.lblock > 40 {
								return st, fmt.Errorf("%s: Lblock above 40", where)
							}
						}
						n := cb.lblock + floorLog2(np)
						ln := 0
						for i := 0; i < n; i++ {
							v, err := br.bit()
							if err != nil {
								return st, fmt.Errorf("%s: %v", where, err)
							}
							ln = ln<<1 | v
							if ln > 1<<30 {
								return st, fmt.Errorf("%s: absurd contribution length", where)
							}
						}
						body += ln
						st.Blocks++
						st.MaxLblock, st.MaxLen, st.MaxPasses = max(st.MaxLblock, cb.lblock), max(st.MaxLen, ln), max(st.MaxPasses, np)
					}
				}
			}
			// the header is padded to a byte boundary; a final 0xFF is followed by a stuffed byte
			hl := br.pos
			if br.cur == 0xFF && br.startedFlag {
				if hl >= len(br.d) {
					return st, fmt.Errorf("%s: header ends in 0xFF at the end of the tile data (no stuffing byte)", where)
				}
				if br.d[hl]&0x80 != 0 {
					return st, fmt.Errorf("%s: header ends in 0xFF and is followed by %#02x, not by a stuffed byte", where, br.d[hl])
				}
				hl++
				st.HeaderStuffed++
			}
			st.HeaderFF += br.ffs
			pos += hl
			if cod.Scod&4 != 0 { // EPH
				if pos+2 > len(d) || d[pos] != 0xFF || d[pos+1] != 0x92 {
					return st, fmt.Errorf("%s: EPH marker missing after the packet header", where)
				}
				pos += 2
			}
			if pos+body > len(d) {
				return st, fmt.Errorf("%s: header announces %d body bytes but only %d remain in the tile", where, body, len(d)-pos)
			}
			pos += body
		}
		if pos != len(d) {
			return st, fmt.Errorf("tile %d: %d bytes of tile data are left after the last packet (%d packets read)", ti, len(d)-pos, st.Packets)
		}
	}
	return st, nil
}

func readPasses(br *t2bits) (int, error) {
	rd := func(n int) (int, error) {
		v := 0
		for i := 0; i < n; i++ {
			b, err := br.bit()
			if err != nil {
				return 0, err
			}
			v = v<<1 | b
		}
		return v, nil
	}
	b, err := rd(1)
	if err != nil || b == 0 {
		return 1, err
	}
	if b, err = rd(1); err != nil || b == 0 {
		return 2, err
	}
	v, err := rd(2)
	if err != nil {
		return 0, err
	}
	if v != 3 {
		return 3 + v, nil
	}
	if v, err = rd(5); err != nil {
		return 0, err
	}
	if v != 31 {
		return 6 + v, nil
	}
	v, err = rd(7)
	return 37 + v, err
}
