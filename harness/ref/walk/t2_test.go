package walk

import (
	"os"
	"path/filepath"
	"testing"
)

// The packet reader is validated on third-party streams (OpenJPH output shipped with the
// repository): every one must split exactly into packets.
func TestWalkPacketsFixtures(t *testing.T) {
	files, _ := filepath.Glob("/repo/test-data/htj2k/interop/*/*.j2c")
	if len(files) == 0 {
		t.Skip("no fixtures")
	}
	for _, f := range files {
		b, err := os.ReadFile(f)
		if err != nil {
			t.Fatal(err)
		}
		j, err := WalkJ2K(b)
		if err != nil {
			t.Errorf("%s: walk: %v", f, err)
			continue
		}
		st, err := j.WalkPackets()
		if err != nil {
			t.Errorf("%s: packets: %v (%+v) COD=%+v", f, err, st, *j.COD)
			continue
		}
		t.Logf("%s: %+v prog=%d levels=%d", filepath.Base(filepath.Dir(f))+"/"+filepath.Base(f), *st, j.COD.Prog, j.COD.Levels)
	}
}
