package walk

// A writer of syntactically valid JPEG 2000 packet headers (T.800 B.10) with freely chosen field
// values - the counterpart of the packet reader in t2.go, used to put hostile but well-formed
// packet headers in front of the library's packet decoder: any number of passes, any Lblock
// increment, any length that fits the announced number of bits.

// PacketBlock describes the contribution of one code-block to the first packet of a precinct.
type PacketBlock struct {
	Included  bool
	ZBP       int    // missing bit-planes signalled on first inclusion
	Passes    int    // 1..164
	LblockInc int    // number of 1 bits in the comma code that raises Lblock
	Len       uint64 // value of the length field (masked to its width); ^0 = all ones
}

type t2wBits struct {
	out  []byte
	cur  byte
	n    int // bits in cur
	last byte
	any  bool
}

func (w *t2wBits) bit(b int) {
	limit := 8
	if w.any && w.last == 0xFF {
		limit = 7 // bit stuffing: the byte after 0xFF carries 7 bits
	}
	w.cur = w.cur<<1 | byte(b&1)
	w.n++
	if w.n == limit {
		w.out = append(w.out, w.cur)
		w.last, w.any = w.cur, true
		w.cur, w.n = 0, 0
	}
}

func (w *t2wBits) bits(v uint64, n int) {
	for i := n - 1; i >= 0; i-- {
		if i >= 64 {
			w.bit(1)
			continue
		}
		w.bit(int(v>>uint(i)) & 1)
	}
}

func (w *t2wBits) flush() []byte {
	for w.n != 0 {
		w.bit(0)
	}
	if w.any && w.last == 0xFF {
		w.out = append(w.out, 0x00)
	}
	return w.out
}

type wNode struct {
	value, low int
	known      bool
	parent     *wNode
}

type wTree struct{ leaves []*wNode }

func newWTree(w, h int, vals []int) *wTree {
	type level struct {
		w, h  int
		nodes []*wNode
	}
	var levels []level
	cw, ch := w, h
	for {
		l := level{cw, ch, make([]*wNode, cw*ch)}
		for i := range l.nodes {
			l.nodes[i] = &wNode{value: 1 << 30}
		}
		levels = append(levels, l)
		if cw == 1 && ch == 1 {
			break
		}
		cw, ch = (cw+1)/2, (ch+1)/2
	}
	for i, v := range vals {
		levels[0].nodes[i].value = v
	}
	for li := 0; li+1 < len(levels); li++ {
		l, up := levels[li], levels[li+1]
		for y := 0; y < l.h; y++ {
			for x := 0; x < l.w; x++ {
				n := l.nodes[y*l.w+x]
				p := up.nodes[(y/2)*up.w+x/2]
				n.parent = p
				if n.value < p.value {
					p.value = n.value
				}
			}
		}
	}
	return &wTree{leaves: levels[0].nodes}
}

// encode writes the tag tree bits that tell a decoder whether the leaf's value is below threshold.
func (t *wTree) encode(w *t2wBits, leaf, threshold int) {
	var path []*wNode
	for n := t.leaves[leaf]; n != nil; n = n.parent {
		path = append(path, n)
	}
	low := 0
	for i := len(path) - 1; i >= 0; i-- {
		n := path[i]
		if low > n.low {
			n.low = low
		} else {
			low = n.low
		}
		for low < threshold {
			if low >= n.value {
				if !n.known {
					w.bit(1)
					n.known = true
				}
				break
			}
			w.bit(0)
			low++
		}
		n.low = low
	}
}

// WritePacketHeader returns the header of the layer-0 packet of a precinct that holds nx x ny
// code-blocks of a single sub-band (resolution 0).
func WritePacketHeader(nx, ny int, blocks []PacketBlock) []byte {
	w := &t2wBits{}
	w.bit(1) // non-empty packet
	incl := make([]int, nx*ny)
	zbp := make([]int, nx*ny)
	for i, b := range blocks {
		if !b.Included {
			incl[i] = 1
		}
		zbp[i] = b.ZBP
	}
	ti, tz := newWTree(nx, ny, incl), newWTree(nx, ny, zbp)
	for i, b := range blocks {
		ti.encode(w, i, 1)
		if !b.Included {
			continue
		}
		tz.encode(w, i, b.ZBP+1)
		p := b.Passes
		switch {
		case p <= 1:
			w.bit(0)
			p = 1
		case p == 2:
			w.bits(2, 2)
		case p <= 5:
			w.bits(uint64(0xC|(p-3)), 4)
		case p <= 36:
			w.bits(uint64(0x1E0|(p-6)), 9)
		default:
			p = min(p, 164)
			w.bits(uint64(0xFF80|(p-37)), 16)
		}
		for k := 0; k < b.LblockInc; k++ {
			w.bit(1)
		}
		w.bit(0)
		n := 3 + b.LblockInc
		for q := p; q > 1; q >>= 1 {
			n++
		}
		w.bits(b.Len, n)
	}
	return w.flush()
}
