package walk

import "testing"

// The header writer and the independent header reader agree on a small precinct (self-check of
// both: a header written for 3 x 2 blocks reads back with the same pass counts and lengths).
func TestPacketWriterAgainstReader(t *testing.T) {
	blocks := []PacketBlock{{true, 0, 1, 0, 5}, {false, 0, 0, 0, 0}, {true, 3, 7, 2, 17}, {true, 1, 2, 0, 9}, {true, 0, 164, 4, 100}, {true, 2, 1, 9, 4000}}
	h := WritePacketHeader(3, 2, blocks)
	br := &t2bits{d: h}
	if b, _ := br.bit(); b != 1 {
		t.Fatal("empty")
	}
	ti, tz := newTagTree(3, 2), newTagTree(3, 2)
	for i, b := range blocks {
		inc, err := ti.decode(br, i, 1)
		if err != nil || inc != b.Included {
			t.Fatalf("block %d inclusion %v err %v", i, inc, err)
		}
		if !inc {
			continue
		}
		z := 0
		for th := 1; ; th++ {
			k, err := tz.decode(br, i, th)
			if err != nil {
				t.Fatal(err)
			}
			if k {
				z = th - 1
				break
			}
		}
		np, _ := readPasses(br)
		lb := 3
		for {
			v, _ := br.bit()
			if v == 0 {
				break
			}
			lb++
		}
		n := lb + floorLog2(np)
		ln := uint64(0)
		for k := 0; k < n; k++ {
			v, _ := br.bit()
			ln = ln<<1 | uint64(v)
		}
		if z != b.ZBP || np != b.Passes || lb != 3+b.LblockInc || ln != b.Len {
			t.Fatalf("block %d: read zbp=%d passes=%d lblock=%d len=%d, wrote %+v", i, z, np, lb, ln, b)
		}
	}
}
