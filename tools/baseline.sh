#!/bin/bash
# Runs the repository's pinned test suite (guard OFF) and compares the set of passing
# tests with /root/.vp/BASELINE.json "stable_pass". Exit 0 iff every baseline test passes.
set -u
export GOPROXY=off GOFLAGS=-mod=mod
OUT=${1:-/verif/.build/baseline.json}
mkdir -p "$(dirname "$OUT")"
cd /repo || exit 2
go test -mod=mod -json -vet=off -count=1 -timeout 25m ./... > "$OUT" 2>"$OUT.err"
python3 - "$OUT" <<'PY'
import json,sys
base=json.load(open('/root/.vp/BASELINE.json'))
want=set(base['stable_pass']) if isinstance(base['stable_pass'],list) else set()
passed=set(); failed=set()
for l in open(sys.argv[1]):
    try: e=json.loads(l)
    except Exception: continue
    if e.get('Test') and e.get('Action') in('pass','fail'):
        k=e['Package']+'::'+e['Test']
        (passed if e['Action']=='pass' else failed).add(k)
missing=sorted(want-passed)
print(f"baseline: want={len(want)} passed={len(passed)} failed={len(failed)} missing={len(missing)}")
for m in missing[:40]: print("  MISSING",m)
for m in sorted(failed)[:40]: print("  FAILED",m)
sys.exit(0 if not missing and not failed else 1)
PY
