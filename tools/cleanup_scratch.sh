#!/bin/bash
# Removes every scratch worktree of /repo made for sensitivity runs (outside /repo and /verif), their build
# output under /verif/.build/alt-*, and stray files under /tmp. Safe to run at any time; registered commands
# never depend on anything it removes.
for d in $(git -C /repo worktree list --porcelain | awk '/^worktree /{print $2}' | grep -v '^/repo$'); do
  git -C /repo worktree remove --force "$d" 2>/dev/null || rm -rf "$d"
done
git -C /repo worktree prune
rm -rf /tmp/seed /tmp/seed2 /tmp/seed3 /tmp/seed4 /tmp/repo_head /tmp/touch /tmp/scratch /tmp/cpu.prof /tmp/w_*.json /tmp/mut1 /tmp/s8 /tmp/o* /tmp/fz 2>/dev/null
rm -rf /verif/.build/alt-* 2>/dev/null
git -C /repo worktree list
