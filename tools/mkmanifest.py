#!/usr/bin/env python3
"""Regenerates /verif/MANIFEST.json from tools/vconfig.py (claimed checks) so that the
manifest is always consistent with what vcheck can run."""
import json, os, sys
sys.path.insert(0, os.path.dirname(os.path.abspath(__file__)))
from vconfig import PROPS, HOOK_COMMITS, NOT_APPLICABLE
ids = [json.loads(l)["id"] for l in open("/verif/properties.jsonl")]
checks = []
for pid in ids:
    if pid not in PROPS or PROPS[pid].get("unclaimed"):
        continue
    c = PROPS[pid]
    checks.append({
        "property_id": pid,
        "quick_cmd": "./vcheck %s --tier quick" % pid,
        "thorough_cmd": "./vcheck %s --tier thorough" % pid,
        "evidence_file": "/verif/evidence/%s.json" % pid,
        "replay_cmd_template": "./vcheck %s --replay {path}" % pid,
        "engine": "vcheck",
        "level_claimed": {"category": "exploration", "text": c["level_text"], "design_ref": "DESIGN.md section 5 " + pid},
        "level_note": c["level_note"],
        "technique": c["technique"],
    })
na = [{"property_id": p, "reason": NOT_APPLICABLE.get(p, "check not built yet; planned, see DESIGN.md section 5")} for p in ids
      if p not in PROPS or PROPS[p].get("unclaimed")]
m = {
    "version": 1,
    "setup_cmd": "./tools/setup.sh",
    "hooks": {"guard": "verif", "enable": "go build tag: -tags verif (passed by vcheck to every build)",
              "baseline_off_cmd": "/verif/tools/baseline.sh", "source_commits": HOOK_COMMITS, "add_only": True},
    "engines": [{"name": "vcheck", "path": "/verif/vcheck", "serves_properties": [c["property_id"] for c in checks],
                 "kind_free_text": "Python driver that rebuilds the Go harness (rapid v1.3.0 property tests, native fuzz targets, reference codecs) against /repo's working tree, runs 16 seeded shards per property, merges coverage statistics into evidence, matches failures against known_findings.json and saves shrunk failing cases as replay files"}],
    "checks": checks,
    "notes": "All checks are property-based tests / fuzzers over generated inputs with explicit oracles; see DESIGN.md. VERIF_SEED selects the rapid seeds of all shards.",
    "not_applicable": na,
}
json.dump(m, open("/verif/MANIFEST.json", "w"), indent=1)
print("MANIFEST: %d checks, %d not claimed" % (len(checks), len(na)))
