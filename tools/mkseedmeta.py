#!/usr/bin/env python3
"""mkseedmeta.py <ID> <caught-by text> : writes /verif/seeded/<ID>/meta.json from the sub-agent's
meta (/tmp/seed/<ID>/_seed/meta.json) and what was run here."""
import json, sys, os
id_, tier, result = sys.argv[1], sys.argv[2], sys.argv[3]
note = sys.argv[4] if len(sys.argv) > 4 else ""
rnd = os.environ.get("SEED_ROUND", "")
a = json.load(open(f"/tmp/seed{rnd}/{id_}/_seed/meta.json"))
outdir = f"/verif/seeded/{id_}" + (f"-{rnd}" if rnd else "")
m = {
    "property": id_[:3],
    "breaks": a.get("summary", ""),
    "needs": a.get("needs", ""),
    "files": a.get("files", []),
    "confirmed": {
        "how": "tools/seedtest.sh %s %s: in a scratch worktree of /repo the unedited suite passes with the change, "
               "demo/zz_seed_demo_test.go fails with it and passes without it; then `git -C /repo apply patch.diff`, "
               "`./vcheck %s --tier %s`, `git -C /repo checkout -- .`" % (id_, tier, id_, tier),
        "suite_passes_with_change": True, "demo_fails_with_change": True, "demo_passes_without": True,
    },
    "check_result": result,
    "note": note,
}
os.makedirs(outdir, exist_ok=True)
json.dump(m, open(outdir + "/meta.json", "w"), indent=1)
print("wrote", id_)
