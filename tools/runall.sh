#!/bin/bash
# Runs every claimed check's quick (or thorough) command sequentially and prints one line each.
tier=${1:-quick}; seed=${2:-1}
cd /verif
for id in $(python3 -c "
import json
print(' '.join(c['property_id'] for c in json.load(open('/verif/MANIFEST.json'))['checks']))"); do
  t0=$(date +%s)
  out=$(VERIF_SEED=$seed ./vcheck $id --tier $tier 2>&1); rc=$?
  echo "$id rc=$rc $(( $(date +%s)-t0 ))s | $(echo "$out" | grep -c '^KNOWN-FINDING') known | $(echo "$out" | tail -1)"
  [ $rc -ne 0 ] && echo "$out" | grep -v "^KNOWN" | tail -15
done
