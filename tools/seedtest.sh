#!/bin/bash
# seedtest.sh <ID> [tier]: verify a seeded change delivered in /tmp/seed/<ID>/_seed in its scratch worktree
# (suite passes with it, demo fails with it / passes without), copy it to /verif/seeded/<ID>/, then apply it to
# /repo, run the property's check, and undo. Prints one summary line.
id=$1; tier=${2:-quick}
wt=/tmp/seed/$id; sd=$wt/_seed
export GOFLAGS=-mod=mod GOPROXY=off GOSUMDB=off GOTOOLCHAIN=local
go() { go1.26.8 "$@"; }
[ -f $sd/patch.diff ] || { echo "$id: no patch"; exit 2; }
pkg=$(cat $sd/demo/README.txt 2>/dev/null | grep -o '[a-z0-9_/]*[a-z0-9]' | grep / | head -1)
demo=$(find $wt -name zz_seed_demo_test.go -not -path "*/_seed/*" | head -1)
demodir=$(dirname "$demo")
cd $wt
# state: patch applied?
git diff --quiet -- . ':!_seed' 2>/dev/null
# (1) with change: suite without demo must pass, demo must fail
mv "$demo" /tmp/seed/$id.demo.go
suite=$(go test -vet=off -count=1 ./... 2>&1 | grep -c "^FAIL\|^--- FAIL")
mv /tmp/seed/$id.demo.go "$demo"
go test -vet=off -count=1 -run TestSeedDemo ./${demodir#$wt/} >/tmp/seed/$id.with.log 2>&1; with=$?
# (2) without change
git apply -R $sd/patch.diff || { echo "$id: cannot reverse patch"; exit 2; }
go test -vet=off -count=1 -run TestSeedDemo ./${demodir#$wt/} >/tmp/seed/$id.without.log 2>&1; without=$?
git apply $sd/patch.diff
mkdir -p /verif/seeded/$id/demo
cp $sd/patch.diff /verif/seeded/$id/patch.diff; cp "$demo" /verif/seeded/$id/demo/; echo "package directory: ${demodir#$wt/}" > /verif/seeded/$id/demo/README.txt
# (3) against /repo
cd /verif
git -C /repo apply /verif/seeded/$id/patch.diff || { echo "$id: patch does not apply to /repo"; exit 2; }
out=$(./vcheck $id --tier $tier 2>&1); rc=$?
git -C /repo checkout -- . 
nviol=$(echo "$out" | grep -c "^VIOLATION")
first=$(echo "$out" | grep "^violation detail" | head -1 | cut -c1-260)
rm -f /verif/replays/$id/[0-9a-f]*.json
echo "$id suite_fail_lines=$suite demo_with_rc=$with demo_without_rc=$without check_${tier}_rc=$rc violations=$nviol | $first"
git -C /repo status --short | head -3
