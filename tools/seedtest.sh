#!/bin/bash
# seedtest.sh <ID> [tier]: verify a seeded change delivered in /tmp/seed/<ID>/_seed in its scratch worktree
# (suite passes with it, demo fails with it / passes without), copy it to /verif/seeded/<ID>/, then apply it to
# /repo, run the property's check, and undo. Prints one summary line.
id=$1; tier=${2:-quick}; round=${3:-}; cid=${4:-$id}   # cid: property whose check is run (default: the directory name)
# round "" : worktree /tmp/seed/<ID>, kept as /verif/seeded/<ID>; round "2": /tmp/seed2/<ID>, /verif/seeded/<ID>-2
root=/tmp/seed$round; out=/verif/seeded/$id${round:+-$round}
wt=$root/$id; sd=$wt/_seed
export GOFLAGS=-mod=mod GOPROXY=off GOSUMDB=off GOTOOLCHAIN=local
go() { go1.26.8 "$@"; }
[ -f $sd/patch.diff ] || { echo "$id: no patch"; exit 2; }
pkg=$(cat $sd/demo/README.txt 2>/dev/null | grep -o '[a-z0-9_/]*[a-z0-9]' | grep / | head -1)
demo=$(find $wt -name zz_seed_demo_test.go -not -path "*/_seed/*" | head -1)
demodir=$(dirname "$demo")
cd $wt
# bring the scratch worktree to /repo's HEAD (later fix commits), keeping the change applied
head=$(git -C /repo rev-parse HEAD)
if [ "$(git rev-parse HEAD)" != "$head" ]; then
  git apply -R $sd/patch.diff && git checkout -q --detach $head && git apply $sd/patch.diff || { echo "$id: cannot move the change to $head"; exit 2; }
fi
# (1) with change: suite without demo must pass, demo must fail
mv "$demo" $root/$id.demo.go
suite=$(go test -vet=off -count=1 ./... 2>&1 | grep -c "^FAIL\|^--- FAIL")
mv $root/$id.demo.go "$demo"
go test -vet=off -count=1 -run TestSeedDemo ./${demodir#$wt/} >$root/$id.with.log 2>&1; with=$?
# (2) without change
git apply -R $sd/patch.diff || { echo "$id: cannot reverse patch"; exit 2; }
go test -vet=off -count=1 -run TestSeedDemo ./${demodir#$wt/} >$root/$id.without.log 2>&1; without=$?
git apply $sd/patch.diff
mkdir -p $out/demo
cp $sd/patch.diff $out/patch.diff; cp "$demo" $out/demo/; echo "package directory: ${demodir#$wt/}" > $out/demo/README.txt
# (3) the property's check, built against the worktree that holds the change (VERIF_REPO; /repo, the
# committed evidence and replays are not touched). SEED_INPLACE=1 applies the change to /repo instead.
cd /verif
if [ -n "$SEED_INPLACE" ]; then
  git -C /repo apply $out/patch.diff || { echo "$id: patch does not apply to /repo"; exit 2; }
  res=$(./vcheck $cid --tier $tier 2>&1); rc=$?
  git -C /repo checkout -- .
  rm -f /verif/replays/$cid/[0-9a-f]*.json
else
  res=$(VERIF_REPO=$wt ./vcheck $cid --tier $tier 2>&1); rc=$?
fi
nviol=$(echo "$res" | grep -c "^VIOLATION")
first=$(echo "$res" | grep "^violation detail" | head -1 | cut -c1-260)
echo "$id suite_fail_lines=$suite demo_with_rc=$with demo_without_rc=$without check_${tier}_rc=$rc violations=$nviol | $first"
git -C /repo status --short | head -3
