#!/bin/bash
# Offline setup after a fresh restore: builds every property's test binary once so that the
# Go build cache is warm. Checks rebuild against /repo's working tree on every run anyway.
set -u
export GOFLAGS=-mod=mod GOPROXY=off GOSUMDB=off GOTOOLCHAIN=local
cd "$(dirname "$0")/../harness" || exit 2
[ -f go.sum ] || cp /repo/go.sum go.sum
mkdir -p ../.build
rc=0
for d in props/*/; do
  n=$(basename "$d")
  go1.26.8 test -c -tags verif -o ../.build/$n.test ./props/$n || rc=2
done
[ -d cmd ] && for d in cmd/*/; do n=$(basename "$d"); go1.26.8 build -tags verif -o ../.build/$n ./cmd/$n || rc=2; done
exit $rc
