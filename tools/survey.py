#!/usr/bin/env python3
"""Triage aid: tabulate survey.jsonl (failures logged with VERIF_SURVEY=1) against stats.json."""
import json, sys, collections
d = sys.argv[1]
st = json.load(open(d + "/stats.json"))
tot = st["classes"]
fails = [json.loads(l) for l in open(d + "/survey.jsonl")] if __import__("os").path.exists(d + "/survey.jsonl") else []
print("evaluations", st["evaluations"], "failures", len(fails))
kinds = collections.Counter(f["failure"]["kind"] + ("|" + f["failure"].get("sig", "") if f["failure"].get("sig") else "") for f in fails)
for k, v in kinds.most_common(): print("  kind", k, v)
lab = collections.Counter()
for f in fails:
    for l in set(f["labels"]): lab[l] += 1
print("label: failures/total")
for l, v in sorted(lab.items(), key=lambda x: -x[1] / max(1, tot.get(x[0], 1))):
    if l.startswith("class="): continue
    print("  %-28s %5d / %-6d %.2f" % (l, v, tot.get(l, 0), v / max(1, tot.get(l, 1))))
