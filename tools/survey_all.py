#!/usr/bin/env python3
"""Triage aid: aggregate survey.jsonl + stats.json over all job dirs of a vcheck run."""
import json, sys, os, collections, glob
base = sys.argv[1]
tot = collections.Counter(); fails = []; ev = 0
for d in glob.glob(base + "/*/"):
    if os.path.exists(d + "stats.json"):
        st = json.load(open(d + "stats.json")); ev += st["evaluations"]
        tot.update(st["classes"])
    if os.path.exists(d + "survey.jsonl"):
        fails += [json.loads(l) for l in open(d + "survey.jsonl")]
print("evaluations", ev, "failures", len(fails))
kinds = collections.Counter(f["failure"]["kind"] + ("|" + f["failure"].get("sig", "") if f["failure"].get("sig") else "") for f in fails)
for k, v in kinds.most_common(): print("  kind", k, v)
lab = collections.Counter()
for f in fails:
    for l in set(f["labels"]): lab[l] += 1
for l, v in sorted(lab.items(), key=lambda x: -x[1] / max(1, tot.get(x[0], 1)))[:int(sys.argv[2]) if len(sys.argv) > 2 else 25]:
    print("  %-30s %5d / %-6d %.3f" % (l, v, tot.get(l, 0), v / max(1, tot.get(l, 1))))
json.dump(fails, open(base + "/survey_all.json", "w"))
