#!/opt/veriftools/pyvenv/bin/python
"""Validate MANIFEST.json and every evidence file against the schemas in /root/.vp."""
import json, sys, glob, jsonschema
ok = True
def check(path, schema):
    global ok
    try:
        jsonschema.validate(json.load(open(path)), json.load(open(schema)))
        print("valid  ", path)
    except Exception as e:
        ok = False
        print("INVALID", path, str(e)[:300])
check("/verif/MANIFEST.json", "/root/.vp/MANIFEST.schema.json")
for p in sorted(glob.glob("/verif/evidence/*.json")):
    check(p, "/root/.vp/EVIDENCE.schema.json")
sys.exit(0 if ok else 1)
