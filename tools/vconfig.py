"""Per-property run configuration for vcheck: test package, case counts per tier, the
non-triviality rule reported in evidence, and the assumptions of the check."""

COMMON_ASSUME = [
    "the Go toolchain go1.26.8 and pgregory.net/rapid v1.3.0 behave as documented",
    "exploration only: generated-input search never shows absence of violations",
]

HOOK_COMMITS = []
NOT_APPLICABLE = {}

PROPS = {
    "C01": dict(
        pkg="c01", fuzz=dict(target="FuzzProp"),
        technique="property-based round-trip testing (rapid) + differential against an independent PackBits/Annex G reader + exhaustive small-string enumeration; thorough adds coverage-guided native Go fuzzing of the same generator and check (rapid.MakeFuzz)",
        level_text="Exploration: seeded rapid generators over FrameInfo x run-length-grammar contents, an exhaustive sweep of all <=10-byte strings over 3 symbols, and fixed 65535x1 strips; each case is checked by round trip, header validity and an independent reader.",
        level_note="Trusts harness/ref/rleref and the Go runtime; absence of violations outside the explored cases is not shown.",
        rule=("rapid-generated RLE frames: FrameInfo (BitsAllocated 8/16/32 x SPP 1/3 x planar 0/1, Rows x Cols) and per-byte-plane "
              "content from a run-length grammar (run/literal tokens with lengths around 2/3, 127..130, 255..258), small alphabets, "
              "noise and literal byte strings; plus a quota of essential classes and an exhaustive enumeration. A case is non-trivial "
              "when some byte plane contains a run >= 3 or two adjacent differing bytes and planes*pixels >= 4; distinct = distinct "
              "64-bit hash of the case descriptor."),
        assumptions=COMMON_ASSUME + ["harness/ref/rleref (independent PackBits/Annex G reader) is correct; it is exercised against every case"],
        quick=dict(shards=16, checks=1500, extra=["TestQuota", "TestExhaustive"], timeout=600),
        thorough=dict(shards=16, checks=120000, extra=["TestQuota", "TestExhaustive"], timeout=3000, fuzztime=180),
    ),
    "C02": dict(
        pkg="c02", fuzz=dict(target="FuzzProp"),
        technique="property-based round-trip testing (rapid) over images x precision x predictor, plus exhaustive enumeration of tiny images and of all 65536 difference values; thorough adds coverage-guided native Go fuzzing of the same generator and check (rapid.MakeFuzz)",
        level_text="Exploration: seeded rapid generators over geometry classes, precision 2..16, selectors 0..7 and SV1, content classes aimed at extreme differences (two-level, alternating extremes, category-16 values); exhaustive sub-domains for tiny images and for the difference coder.",
        level_note="Round trip through the library's own encoder and decoder only (conformance is C13); trusts the Go runtime.",
        rule=("rapid-generated (image, selector) pairs; image = geometry class x components {1,3} x P 2..16 x content class (noise, twolevel, "
              "altext, cat16, extremes, runs, ...), small images drawn sample by sample. Non-trivial: >= 2 distinct sample values and "
              "width*height >= 2. Distinct = 64-bit hash of the case descriptor. Labels dht-cat16 / dht-len16 / stuffed are read from the emitted stream."),
        assumptions=COMMON_ASSUME,
        quick=dict(shards=16, checks=1500, extra=["TestQuota", "TestExhaustiveDiff", dict(run="TestExhaustive", shards=4), dict(run="TestBig", shards=8)], timeout=600),
        thorough=dict(shards=16, checks=25000, extra=["TestQuota", "TestExhaustiveDiff", dict(run="TestExhaustive", shards=16), dict(run="TestBig", shards=8)], timeout=3000, fuzztime=180),
    ),
    "C13": dict(
        pkg="c13", fuzz=dict(target="FuzzProp"),
        technique="differential property-based testing (rapid) against an independent T.81 Annex H encoder and decoder, both directions; thorough adds coverage-guided native Go fuzzing of the same generator and check (rapid.MakeFuzz)",
        level_text="Exploration: direction A feeds every library encoder entry (predictors 0-7, SV1 package, .57/.70 registry codecs) to the reference decoder; direction B feeds reference-encoder streams over predictor x precision x Td assignment x table kind (standard, optimal, random canonical) x segment layout to the library decoders.",
        level_note="Trusts harness/ref/t81 (self-tested encoder<->decoder, written from the standard) and the Go runtime.",
        rule=("rapid-generated differential experiments: images as in C02; direction A (library encoder -> ref decoder) or B (ref encoder -> library "
              "decoder) with drawn predictor, per-component Td in 0..3, table kinds std/stddesc/opt/rand, APPn/COM segments, DHT placement, component ids. "
              "Non-trivial: image has >= 2 rows, >= 2 columns and >= 2 distinct values (edge rules exercised). Distinct = hash of the case descriptor."),
        assumptions=COMMON_ASSUME + ["harness/ref/t81 implements T.81 Annex H correctly (checked by its own round-trip self-test and by agreement with the library on predictor 1)"],
        quick=dict(shards=16, checks=1200, extra=["TestQuota", dict(run="TestBig", shards=8)], timeout=600),
        thorough=dict(shards=16, checks=200000, extra=["TestQuota", dict(run="TestBig", shards=8)], timeout=3000, fuzztime=180),
    ),
    "C03": dict(
        pkg="c03", fuzz=dict(target="FuzzProp"),
        technique="property-based round-trip testing (rapid) with run-mode / range-wrap oriented generators, plus exhaustive enumeration of tiny images; thorough adds coverage-guided native Go fuzzing of the same generator and check (rapid.MakeFuzz)",
        level_text="Exploration: seeded rapid generators over geometry x precision 2..16 x components {1,3} x content classes (two-level, runs, sparse outliers, width 1, noise); quota cases for long runs (run index), context reset, every precision; exhaustive tiny images at P=2 and P=4.",
        level_note="Round trip through the library's own encoder/decoder; labels (escape code, context reset, interruption type) are read from the stream by the independent T.87 decoder. Conformance itself is C14.",
        rule=("rapid-generated images: geometry classes (tiny, block edges, strips), components {1,3}, P 2..16, content class; small images literal. "
              "Non-trivial: two equal horizontal neighbours (run mode reachable) or a neighbour jump >= 2^(P-1) (modulo-RANGE wrap exercised). Distinct = hash of the case."),
        assumptions=COMMON_ASSUME,
        quick=dict(shards=16, checks=1200, extra=["TestQuota", dict(run="TestExhaustive", shards=4), dict(run="TestFlat", shards=8), dict(run="TestBig", shards=8)], timeout=600),
        thorough=dict(shards=16, checks=75000, extra=["TestQuota", dict(run="TestExhaustive", shards=16), dict(run="TestFlat", shards=16), dict(run="TestBig", shards=8)], timeout=3000, fuzztime=180),
    ),
    "C07": dict(
        pkg="c07", fuzz=dict(target="FuzzProp"),
        technique="property-based testing (rapid) with a per-sample error-bound oracle, plus a sweep over every (precision, NEAR) pair; thorough adds coverage-guided native Go fuzzing of the same generator and check (rapid.MakeFuzz)",
        level_text="Exploration: seeded rapid generators over images x NEAR (emphasis 0..3 and maximum) with NEAR-aware content (samples within NEAR of the range ends, ramps of step 2*NEAR+1 / 2*NEAR, runs disturbed by NEAR and NEAR+1), and a deterministic sweep visiting every NEAR at every precision.",
        level_note="Oracle is the statement's own bound |dec-src| <= NEAR, dec <= MAXVAL, reported NEAR and geometry; trusts only the Go runtime.",
        rule=("rapid-generated (image, NEAR) with P 2..16, NEAR in 0..min(255,MAXVAL/2); sweep of all 2250 (P,NEAR) pairs. Non-trivial: NEAR = 0, or NEAR >= 1 and at least one "
              "decoded sample differs from its source (the quantiser acted). Distinct = hash of the case."),
        assumptions=COMMON_ASSUME,
        quick=dict(shards=16, checks=1200, extra=["TestQuota", dict(run="TestNearSweep", shards=4), dict(run="TestBig", shards=8)], timeout=600),
        thorough=dict(shards=16, checks=100000, extra=["TestQuota", dict(run="TestNearSweep", shards=16), dict(run="TestBig", shards=8)], timeout=3000, fuzztime=180),
    ),
    "C14": dict(
        pkg="c14", fuzz=dict(target="FuzzProp"),
        technique="differential property-based testing (rapid) against an independent T.87 decoder, cross-package metamorphic relations, and the Annex H.3 vector; thorough adds coverage-guided native Go fuzzing of the same generator and check (rapid.MakeFuzz)",
        level_text="Exploration: library streams (lossless and near-lossless, every precision, every NEAR visited) are decoded by the independent T.87 decoder and compared with the source / the library decoder; lossless vs NEAR=0 encoders compared bytewise, decoders cross-fed; finite H.3 vector checked completely.",
        level_note="Trusts harness/ref/t87 (written from the standard, pinned by the H.3 vector; RItype=0 for sample-interleaved run interruptions as in the HP reference/CharLS).",
        rule=("rapid-generated (image, package/NEAR) as in C03/C07; sweep over all 2250 (P,NEAR) pairs; H.3 vector. Non-trivial: image has two equal horizontal neighbours or a jump >= 2^(P-1). "
              "Distinct = hash of the case."),
        assumptions=COMMON_ASSUME + ["harness/ref/t87 implements the T.87 decoding procedure correctly (H.3 vector self-test on every run)"],
        quick=dict(shards=16, checks=1000, extra=["TestQuota", "TestH3", dict(run="TestNearSweep", shards=4), dict(run="TestBig", shards=8)], timeout=600),
        thorough=dict(shards=16, checks=80000, extra=["TestQuota", "TestH3", dict(run="TestNearSweep", shards=16), dict(run="TestBig", shards=8)], timeout=3000, fuzztime=180),
    ),
    "C04": dict(
        pkg="c04", fuzz=dict(target="FuzzProp"),
        technique="property-based round-trip testing (rapid) over the reversible single-tile configuration product, plus a deterministic size grid; thorough adds coverage-guided native Go fuzzing of the same generator and check (rapid.MakeFuzz)",
        level_text="Exploration: seeded rapid generators over image (1-4 components, precision 1-16, signed/unsigned, noise-dominant content) x configuration (levels 0-6, code-block sizes, precinct sizes, five progression orders, 1-6 layers, MCT); thorough adds the 1..40 x 1..40 size grid.",
        level_note="Round trip through the library's own encoder/decoder (stream validity is C16); trusts the Go runtime.",
        rule=("rapid-generated (image, reversible single-tile configuration). Non-trivial: >= 2 distinct sample values and layers*(levels+1)*components >= 2 packets. "
              "Labels empty-subband / image<codeblock are computed from the drawn geometry, body-contains-FF from the emitted tile-part bodies via the independent walker. Distinct = hash of the case."),
        assumptions=COMMON_ASSUME,
        quick=dict(shards=16, checks=1200, extra=["TestQuota", dict(run="TestBig", shards=8)], timeout=900),
        thorough=dict(shards=16, checks=15000, extra=["TestQuota", dict(run="TestGrid", shards=16), dict(run="TestBig", shards=8)], timeout=3400, fuzztime=180),
    ),
    "C05": dict(
        pkg="c05", fuzz=dict(target="FuzzProp"),
        technique="property-based round-trip testing (rapid) through the registered DICOM codecs over generated parameter objects, plus a deterministic size grid; thorough adds coverage-guided native Go fuzzing of the same generator and check (rapid.MakeFuzz)",
        level_text="Exploration: seeded rapid generators over FrameInfo (8/16 bits allocated, BitsStored 2-16, 1/3 samples, signedness, 1-2 frames) x parameter objects (nil, typed, generic) constructed inside the property's precondition (final lossless layer kept, or no rate target); thorough adds the 40x80 size grid.",
        level_note="Round trip through the registry codecs .90 and .92; trusts the Go runtime.",
        rule=("rapid-generated (frames, FrameInfo, parameter object). Non-trivial: a rate target is in effect (Rate>0 or TargetRatio>0, so the PCRD path runs) and the image has >= 2 distinct values. "
              "Distinct = hash of the case."),
        assumptions=COMMON_ASSUME,
        quick=dict(shards=16, checks=1000, extra=["TestQuota", dict(run="TestBig", shards=8)], timeout=900),
        thorough=dict(shards=16, checks=20000, extra=["TestQuota", dict(run="TestGrid", shards=16), dict(run="TestBig", shards=8)], timeout=3400, fuzztime=180),
    ),
    "C19": dict(
        pkg="c19", fuzz=dict(target="FuzzProp"),
        technique="property-based round-trip testing (rapid) over tile grids; thorough adds coverage-guided native Go fuzzing of the same generator and check (rapid.MakeFuzz)",
        level_text="Exploration: seeded rapid generators over image x tile size drawn from shape classes (power of two, odd, even, last tile one sample wide, smaller than a code-block, arbitrary; 1-16 tiles per axis) x components {1,3} x precision {8,12,16} x levels 0-5 x layers 1-3, including global rate allocation with a final lossless layer.",
        level_note="Round trip through the library's own encoder/decoder; trusts the Go runtime.",
        rule=("rapid-generated (image, tiled reversible configuration); noise-dominant content. Non-trivial: at least 2 tiles. Distinct = hash of the case. "
              "Labels (odd-tile-origin, partial-right/bottom, tile<codeblock, tiles-in-row>=3, global-rd) are computed from the drawn geometry."),
        assumptions=COMMON_ASSUME,
        quick=dict(shards=16, checks=300, extra=[dict(run="TestManyTiles", shards=8)], timeout=900),
        thorough=dict(shards=16, checks=17500, extra=[dict(run="TestManyTiles", shards=16)], timeout=3400, fuzztime=180),
    ),
    "C20": dict(
        pkg="c20", fuzz=dict(target="FuzzProp"),
        technique="property-based round-trip testing (rapid) at the exported layer APIs (MQ coder, EBCOT T1, 5/3 DWT, RCT) plus exhaustive enumeration of short MQ sequences and short 1-D signals; thorough adds coverage-guided native Go fuzzing of the same generator and check (rapid.MakeFuzz)",
        level_text="Exploration: MQ sequences up to 10^5 symbols over 1-19 contexts with per-context bias and long runs; T1 blocks 1x1..64x64, four orientations, all 64 style combinations, magnitudes up to 2^24, decoded through every public decode route the library's tier-2 uses; DWT sizes 1..257, levels 0-8, origins 0-7; RCT triples within +-2^28; exhaustive small sub-domains.",
        level_note="A T1 block counts as reproduced if any of the three public decode routes returns it exactly (the harness demands nothing tier-2 could not supply). Trusts the Go runtime.",
        rule=("rapid-generated experiments of four kinds. Non-trivial: MQ - >= 64 symbols and >= 1 output byte 0xFF; T1 - >= 2 bit-planes and (height > 4 or style != 0); "
              "DWT - levels >= 1 and min(w,h) >= 2; RCT - >= 1 triple. Distinct = hash of the case."),
        assumptions=COMMON_ASSUME,
        quick=dict(shards=16, checks=600, extra=["TestStyles", "TestExhaustive", dict(run="TestRaw", shards=8), dict(run="TestMQBulk", shards=16)], timeout=900),
        thorough=dict(shards=16, checks=72000, extra=["TestStyles", "TestExhaustive", dict(run="TestRaw", shards=16), dict(run="TestMQBulk", shards=16)], timeout=3400, fuzztime=180),
    ),
    "C12": dict(
        pkg="c12", fuzz=dict(target="FuzzProp"),
        technique="property-based testing (rapid) with a per-sample error-bound oracle computed from the QCD step sizes parsed from the emitted stream and exact L1 synthesis gains of an independent inverse 9/7 transform; thorough adds coverage-guided native Go fuzzing of the same generator and check (rapid.MakeFuzz)",
        level_text="Exploration: seeded rapid generators over images (<= 96x96, 1/3 components, precision 8/12/16, signed or not) x irreversible single-tile configurations (levels 0-6, quality 1-100, code-blocks 16/32/64, no rate target); the bound is the statement's: sum over sub-bands of declared step x exact synthesis gain, through |inverse ICT|, plus a fixed allowance.",
        level_note="Trusts harness/ref/dwt97 (T.800 Annex F lifting, self-tested for perfect reconstruction and nominal gains) and the independent QCD/COD walker. Closed-form gains for sizes above 96 are not implemented; sizes are capped at 96.",
        rule=("rapid-generated (image, irreversible configuration). Non-trivial: some declared step size exceeds 1 (quantiser active) and the image is not constant. Distinct = hash of the case. "
              "Label tightness>N% records how close the observed error came to the bound."),
        assumptions=COMMON_ASSUME + ["the rounding allowance 2 + 2^(P-13) covers single-precision arithmetic of the transform chain"],
        quick=dict(shards=16, checks=600, extra=[dict(run="TestBig", shards=8)], timeout=900),
        thorough=dict(shards=16, checks=45000, extra=[dict(run="TestBig", shards=8)], timeout=3400, fuzztime=180),
    ),
    "C06": dict(
        pkg="c06", fuzz=dict(target="FuzzProp"),
        technique="property-based round-trip testing (rapid) through the registered HTJ2K lossless codecs, plus complete enumeration of the bundled third-party codestreams; thorough adds coverage-guided native Go fuzzing of the same generator and check (rapid.MakeFuzz)",
        level_text="Exploration: seeded rapid generators over FrameInfo (8/16 bits allocated, BitsStored <= allocated, 1/3 samples, signedness) x htj2k.Parameters (block 4..64, levels 0-6; nil / typed / generic) x content (all-zero blocks, sparse, full-scale noise); the 14 OpenJPH/fo-dicom fixtures are decoded and compared with their raw sources on every run; thorough adds the 80x80 size grid.",
        level_note="Round trip through the registry codecs .201/.202; fixtures are the finite set in test-data/htj2k/interop. Trusts the Go runtime.",
        rule=("rapid-generated (frame, FrameInfo, parameters). Non-trivial: at least one non-zero sample and >= 4 pixels (an HT code-block with a non-zero sample and >= 2 quads). Distinct = hash of the case."),
        assumptions=COMMON_ASSUME,
        quick=dict(shards=16, checks=250, extra=["TestQuota", "TestFixtures", dict(run="TestBig", shards=8)], timeout=900),
        thorough=dict(shards=16, checks=6000, extra=["TestQuota", "TestFixtures", dict(run="TestGrid", shards=16), dict(run="TestBig", shards=8)], timeout=3400, fuzztime=180),
    ),
    "C11": dict(
        pkg="c11", fuzz=dict(target="FuzzProp"),
        technique="property-based testing (rapid) with a per-sample error-bound oracle computed from the DQT tables parsed from the emitted stream; thorough adds coverage-guided native Go fuzzing of the same generator and check (rapid.MakeFuzz)",
        level_text="Exploration: seeded rapid generators over images (8-bit 1/3 components, 12-bit greyscale; noise, Nyquist checkerboards, black/white extremes) x quality 1..100 x Baseline/Extended; a deterministic sweep over every size 1..33 x 1..33; a quota of 384..512-squared noise images (the Huffman length-limiting regime); the bound is the statement's (C(u)C(v)-weighted eighth of the table sum, through |YCbCr->RGB|, plus 2 / 5).",
        level_note="DQT, SOF and sampling factors are read by the independent JPEG walker; trusts the Go runtime.",
        rule=("rapid-generated (image, quality, codec). Non-trivial: image not constant, entropy-coded data longer than 2 bytes per block (AC coefficients present), and >= 2 blocks or a partial block. Distinct = hash of the case."),
        assumptions=COMMON_ASSUME,
        quick=dict(shards=16, checks=400, extra=[dict(run="TestSizes", shards=4), dict(run="TestLarge", shards=8)], timeout=900),
        thorough=dict(shards=16, checks=64000, extra=[dict(run="TestSizes", shards=16), dict(run="TestLarge", shards=16)], timeout=3400, fuzztime=180),
    ),
    "C15": dict(
        pkg="c15", fuzz=dict(target="FuzzProp"),
        technique="differential property-based testing (rapid) against Go's image/jpeg (decoder and encoder) and an independent reference baseline encoder, both directions; thorough adds coverage-guided native Go fuzzing of the same generator and check (rapid.MakeFuzz)",
        level_text="Exploration: direction A decodes every library Baseline/Extended 8-bit stream with image/jpeg and compares with the library decoder; direction B feeds streams from image/jpeg.Encode (grey, 4:2:0) and from ref/dctenc (4:4:4, 4:2:2, 4:2:0, 4:4:0; standard/optimised Huffman; restart intervals; JFIF/Adobe/COM segments; component ids 1..3 / 0..2) to both library decoders; all sizes 1..33 x 1..33 swept.",
        level_note="Trusts image/jpeg as the independent implementation and ref/dctenc (every reference stream is first accepted by image/jpeg, else the run is a harness fault).",
        rule=("rapid-generated (image, direction, codec, quality, stream layout). Non-trivial: width or height not a multiple of the MCU size, or >= 2 MCUs. Distinct = hash of the case."),
        assumptions=COMMON_ASSUME + ["Go's image/jpeg is a conformant baseline decoder/encoder"],
        quick=dict(shards=16, checks=300, extra=[dict(run="TestSizes", shards=4), dict(run="TestBig", shards=8)], timeout=900),
        thorough=dict(shards=16, checks=90000, extra=[dict(run="TestSizes", shards=16), dict(run="TestBig", shards=8)], timeout=3400, fuzztime=180),
    ),
    "C16": dict(
        pkg="c16", fuzz=dict(target="FuzzProp"),
        technique="property-based testing (rapid) with strict independent marker-segment walkers and an independent T.800 Annex B packet reader as validity predicates over every encoder's output; thorough adds coverage-guided native Go fuzzing of the same generator and check (rapid.MakeFuzz)",
        level_text="Exploration: seeded rapid generators over all encoders (Baseline, Extended 8/12, Lossless 0-7, SV1, JPEG-LS lossless/near, JPEG 2000 reversible/irreversible/tiled/layered/all progressions, HTJ2K .201/.202/.203, RLE) with noise-dominant content, dimensions >= 256 and 65535 strips, up to 64 tiles; each stream is walked strictly and its header fields compared with the arguments; every JPEG 2000 / HTJ2K tile is additionally split into packets by an independent T.800 Annex B reader (tag trees, pass counts, Lblock, bit stuffing, terminal 0xFF rule) and must divide exactly; a quota of many-layer noise frames (about 60 packets each) makes packet headers ending in 0xFF occur.",
        level_note="Trusts harness/ref/walk (JPEG/JPEG-LS/JPEG 2000 walkers, packet reader validated on the 14 third-party OpenJPH streams of /repo/test-data) and ref/rleref; they are written from the standards and share no code with /repo. The packet reader does not model streams with more than one precinct above resolution 0 (the library's precinct layout is not T.800's) and is inconclusive on multi-tile streams that divide under neither canvas nor tile-local anchoring (open findings KF-C19-1/2).",
        rule=("rapid-generated (encoder, image, parameters). Non-trivial: the entropy-coded part contains at least one 0xFF byte (stuffing / marker avoidance exercised) or the codestream has >= 2 tile-parts (RLE: always). Distinct = hash of the case."),
        assumptions=COMMON_ASSUME,
        quick=dict(shards=16, checks=300, extra=[dict(run="TestPackets", shards=16), dict(run="TestTails", shards=16)], timeout=900),
        thorough=dict(shards=16, checks=48000, extra=[dict(run="TestPackets", shards=16), dict(run="TestTails", shards=16)], timeout=3400, fuzztime=180),
    ),
    "C10": dict(
        pkg="c10",
        technique="model-based property testing of call histories (rapid): generated sequences of Encode/Decode calls on the registered codecs and on reused jpeg2000.Encoder/Decoder objects, compared frame by frame with a fresh-call model",
        level_text="Exploration: seeded rapid generators over the 14 registered transfer syntaxes x FrameInfo (BitsAllocated 8/16, 1 < BitsStored <= BitsAllocated within the syntax's precision, 1/3 samples) x histories (frame sequences with repeats, permutations and very different frames; reuse of one Encoder; one Decoder fed plain / MCT / no-MCT / ROI / Part-2 MCT streams and streams of unrelated images in drawn order; unrelated calls with other geometry and explicit non-default parameters on the same registered codec in between). Invariant: frame counts equal, output i equals the fresh single-frame result, inputs unchanged, decoded length = Rows*Cols*SPP*ceil(BA/8), lossless syntaxes reproduce the source.",
        level_note="The model is the library itself called afresh on one frame, so systematic (history-independent) coding errors are out of scope here (C01-C07 cover them).",
        rule=("rapid-generated (syntax, FrameInfo, pool of frames, history of actions). Non-trivial: the pool holds >= 2 different frames and the history contains an object-reuse action or a sequence of length >= 2. Distinct = hash of the case."),
        assumptions=COMMON_ASSUME,
        quick=dict(shards=16, checks=120, extra=["TestQuota"], timeout=900),
        thorough=dict(shards=16, checks=12000, extra=["TestQuota"], timeout=3400),
    ),
    "C17": dict(
        pkg="c17", fuzz=dict(target="FuzzProp"),
        technique="enumerated argument lattice plus property-based sampling (rapid) of encoder arguments around every documented limit, with a reject/accept oracle and decode-back of every returned stream; thorough adds coverage-guided native Go fuzzing of the same generator and check (rapid.MakeFuzz)",
        level_text="Exploration: the full small-dimension lattice (dimensions -1..3, components 0..5, depth set, quality/NEAR/predictor sets, buffer lengths 0..needed+1) of every package-level encoder is enumerated; dimensions around 2^15 and 2^16, JPEG 2000 level/code-block limits, nil parameters, and codec-level FrameInfo/Parameters/frames combinations (nil, foreign, wrongly typed, out of range, zero frames, empty frame, nil FrameInfo) are sampled.",
        level_note="An encoder must return an error for the argument classes the statement lists, must never panic, and any stream it returns must decode to / declare exactly the requested geometry. Arguments the statement does not list are only subject to the last two.",
        rule=("enumerated + rapid-generated argument tuples. Every case has at least one argument at or beyond a limit or is a lattice point; non-trivial = all (each tuple is a distinct call). Distinct = hash of the case."),
        assumptions=COMMON_ASSUME,
        quick=dict(shards=16, checks=800, extra=[dict(run="TestLattice", shards=8)], timeout=900),
        thorough=dict(shards=16, checks=90000, extra=[dict(run="TestLattice", shards=16)], timeout=3400, fuzztime=180),
    ),
    "C18": dict(
        pkg="c18", race=True,
        technique="property-based testing of generated concurrent workloads (rapid) under the Go race detector, each job compared with the same job run alone",
        level_text="Exploration: generated job lists (2-64 Encode/Decode calls concentrated on 1-3 of the 14 registered codecs or on distinct low-level encoder/decoder objects; parameters nil / private / one shared GetDefaultParameters() object; drawn Gosched perturbations; GOMAXPROCS 1/2/4/16) run concurrently in a -race build; any race report whose stacks touch /repo and any result different from the solo run (made with a pristine parameters object) is a violation; shared-parameter calls are repeated sequentially afterwards; frame pools may mix sizes; TestColdStart gives each of the 17 targets a process of its own whose first calls are 8 concurrent encodes and then 8 concurrent decodes (lazily built tables).",
        level_note="Schedules are sampled, not controlled: the race detector only sees interleavings that happen. The statement's static obligation (no non-init write to package variables, no receiver-field writes in Codec methods) is a structural argument outside this technique family and is not decided here.",
        rule=("rapid-generated concurrent workloads. Non-trivial: at least two jobs on the same codec instance measurably overlapped in time (start/end stamps). Distinct = hash of the case."),
        assumptions=COMMON_ASSUME + ["the Go race detector reports every data race among the executed, conflicting accesses"],
        quick=dict(shards=8, checks=25, extra=[dict(run="TestSharedParams", shards=7), dict(run="TestColdStart", shards=17)], timeout=900, parallel=8, gomaxprocs=16),
        thorough=dict(shards=8, checks=600, extra=[dict(run="TestSharedParams", shards=7), dict(run="TestColdStart", shards=17)], timeout=3400, parallel=8, gomaxprocs=16),
    ),
    "C08": dict(
        pkg="c0809", env={"VERIF_PROP": "C08", "VERIF_WORKER_HANG_S": "12"}, fuzz=dict(target="FuzzDecode"),
        aux_build=[dict(out="decworker", pkg="./cmd/decworker")],
        technique="structured-mutation fuzzing (rapid) of valid streams of every codec through every decoding entry point, plus enumerated truncations and single-header-byte corruptions; thorough adds coverage-guided native Go fuzzing",
        level_text="Exploration: a pool of small valid streams (library and reference encoders, third-party HTJ2K fixtures) is mutated by drawn programs (truncation, byte/field/length/word edits, segment delete/duplicate/move/overwrite, splices, random tails, marker insertion) and decoded through all 23 entry points (package Decode functions, the JPEG 2000 decoder object and its accessors, the HT factory, the codestream parser, the 14 registered codecs, RLE with hostile FrameInfo) inside worker child processes; every truncation offset and every header byte with a hostile value set is enumerated.",
        level_note="A recovered Go panic or a fatal stack overflow is a violation; allocation aborts and hangs are C09's subject and only counted. Trusts the worker protocol and the Go runtime.",
        rule=("rapid-generated and enumerated (entry point, byte string[, FrameInfo]). Non-trivial: the input still starts with the family's start marker (it reaches real parsing) and differs from its valid parent. Distinct = hash of the case."),
        assumptions=COMMON_ASSUME,
        quick=dict(shards=16, checks=1500, extra=["TestValid", dict(run="TestTruncations", shards=8), dict(run="TestHeaderBytes", shards=8), dict(run="TestRLEGrammar", shards=4), dict(run="TestHeaders", shards=16), dict(run="TestPairBytes", shards=8), dict(run="TestJ2KFields", shards=8), dict(run="TestTilePartHeaders", shards=4), dict(run="TestPacketGrammar", shards=8), dict(run="TestHTBlockTails", shards=8), dict(run="TestSegmentInsert", shards=4)], timeout=900, parallel=16),
        thorough=dict(shards=16, checks=15000, extra=["TestValid", dict(run="TestTruncations", shards=8), dict(run="TestHeaderBytes", shards=16), dict(run="TestRLEGrammar", shards=8), dict(run="TestHeaders", shards=16), dict(run="TestPairBytes", shards=16), dict(run="TestJ2KFields", shards=8), dict(run="TestTilePartHeaders", shards=4), dict(run="TestPacketGrammar", shards=8), dict(run="TestHTBlockTails", shards=8), dict(run="TestSegmentInsert", shards=4)], timeout=3400, fuzztime=600),
    ),
    "C09": dict(
        pkg="c0809", env={"VERIF_PROP": "C09"},
        aux_build=[dict(out="decworker", pkg="./cmd/decworker")],
        technique="structured-mutation fuzzing (rapid) with a resource oracle: every decode runs in a worker child under RLIMIT_AS with per-call thread-CPU time, allocation totals and sampled peak heap, judged against the budget computed by an independent header pre-parser",
        level_text="Exploration: the same generated and enumerated inputs as C08; an input is in the property's domain when its length is <= 64 KiB and the first frame header found by the independent pre-parser (every plausible reading, saturating arithmetic) declares S <= 2^22 samples or nothing. In-domain inputs must finish within 10 s of CPU on the decoding thread (CPU <= wall, so a busy machine cannot raise an alarm) and within a peak heap of 512 MiB + 64*S; an out-of-memory abort under a 6 GiB address space or a hang (watchdog 25 s with >= 12 s process CPU) is a violation after one confirmation run.",
        level_note="Peak heap is the sampled live-heap growth (1 ms sampler, GC percent 10) and is only consulted when the cumulative allocation already exceeds the budget; hangs that need deep un-generated state stay unseen.",
        rule=("rapid-generated and enumerated (entry point, byte string[, FrameInfo]). Non-trivial: the input starts with the family's start marker, differs from its valid parent and the pre-parser found a frame header (the budget formula was exercised). Distinct = hash of the case."),
        assumptions=COMMON_ASSUME + ["getrusage(RUSAGE_THREAD) of the locked decoding thread is a lower bound of the call's wall time"],
        quick=dict(shards=16, checks=1500, extra=["TestValid", dict(run="TestTruncations", shards=8), dict(run="TestHeaderBytes", shards=8), dict(run="TestRLEGrammar", shards=4), dict(run="TestHeaders", shards=16), dict(run="TestPairBytes", shards=8), dict(run="TestJ2KFields", shards=8), dict(run="TestTilePartHeaders", shards=4), dict(run="TestPacketGrammar", shards=8), dict(run="TestHTBlockTails", shards=8), dict(run="TestSegmentInsert", shards=4)], timeout=900, parallel=16),
        thorough=dict(shards=16, checks=15000, extra=["TestValid", dict(run="TestTruncations", shards=8), dict(run="TestHeaderBytes", shards=16), dict(run="TestRLEGrammar", shards=8), dict(run="TestHeaders", shards=16), dict(run="TestPairBytes", shards=16), dict(run="TestJ2KFields", shards=8), dict(run="TestTilePartHeaders", shards=4), dict(run="TestPacketGrammar", shards=8), dict(run="TestHTBlockTails", shards=8), dict(run="TestSegmentInsert", shards=4)], timeout=3400),
    ),
}
